//! C17: the builder's argument setters on real values — destinations (`with_file` → `add_data`), the
//! `std::path` functions `add_data` relies on (validated one by one), compression levels (in a child
//! process: an encoder may panic or abort), timestamp setters, capability text, metadata strings.
use crate::common::*;
use chrono::{DateTime, FixedOffset, Utc};
use rpm::{CompressionType, CompressionWithLevel, Error, FileCaps, FileOptions, IndexTag, Package, PackageBuilder, Timestamp};
use std::ffi::OsStr;
use std::os::unix::ffi::OsStrExt;
use std::os::unix::fs::OpenOptionsExt;
use std::panic::AssertUnwindSafe;
use std::path::{Component, Path};
use std::str::FromStr;
use std::sync::OnceLock;
use std::time::{Duration, SystemTime};

const SRC_CONTENT: &[u8] = b"c17 payload: the quick brown fox jumps over the lazy dog\n";

/// a small real source file, created once under work/ (atomically: shards start concurrently)
fn source_file() -> &'static str {
    static P: OnceLock<String> = OnceLock::new();
    P.get_or_init(|| {
        let dir = concat!(env!("CARGO_MANIFEST_DIR"), "/../work");
        let _ = std::fs::create_dir_all(dir);
        let p = format!("{}/c17_src.txt", dir);
        if std::fs::read(&p).map(|c| c != SRC_CONTENT).unwrap_or(true) {
            let tmp = format!("{}.{}", p, std::process::id());
            std::fs::write(&tmp, SRC_CONTENT).expect("write source file");
            std::fs::rename(&tmp, &p).expect("rename source file");
        }
        p
    })
}

fn builder() -> PackageBuilder {
    PackageBuilder::new("n", "1", "MIT", "noarch", "s")
}

fn err_class(e: &Error) -> &'static str {
    match e {
        Error::InvalidDestinationPath { .. } => "err:InvalidDestinationPath",
        Error::InvalidCapabilities { .. } => "err:InvalidCapabilities",
        Error::Io(_) => "err:io",
        _ => "err:other",
    }
}

fn roundtrip(pkg: &Package) -> Result<Package, String> {
    let mut w = Vec::new();
    pkg.write(&mut w).map_err(|_| "err:write".to_string())?;
    Package::parse(&mut &w[..]).map_err(|_| "err:parse".to_string())
}

/// `dest H`: with_file(src, FileOptions::new(dest)) → build → write → parse → read back
fn dest(d: String) -> String {
    let r = guarded(AssertUnwindSafe(|| -> Result<String, String> {
        let b = builder()
            .compression(CompressionType::None)
            .with_file(source_file(), FileOptions::new(d))
            .map_err(|e| err_class(&e).to_string())?;
        let pkg = b.build().map_err(|e| err_class(&e).to_string())?;
        let p = roundtrip(&pkg)?;
        let h = &p.metadata.header;
        let dirs = h.get_entry_data_as_string_array(IndexTag::RPMTAG_DIRNAMES).map_err(|_| "err:dirnames".to_string())?;
        let bases = h.get_entry_data_as_string_array(IndexTag::RPMTAG_BASENAMES).map_err(|_| "err:basenames".to_string())?;
        let idx = h.get_entry_data_as_u32_array(IndexTag::RPMTAG_DIRINDEXES).map_err(|_| "err:dirindexes".to_string())?;
        let paths = p.metadata.get_file_paths().map_err(|_| "err:paths".to_string())?;
        let entries = p.metadata.get_file_entries().map_err(|_| "err:entries".to_string())?;
        if bases.len() != 1 || idx.len() != 1 || paths.len() != 1 || entries.len() != 1 || idx[0] as usize >= dirs.len() {
            return Err("err:shape".into());
        }
        if entries[0].path != paths[0] {
            return Err("err:entry-path".into());
        }
        Ok(format!(
            "ok {} {} {}",
            hx(dirs[idx[0] as usize].as_bytes()),
            hx(bases[0].as_bytes()),
            hx(paths[0].as_os_str().as_bytes())
        ))
    }));
    match r {
        Ok(Ok(s)) | Ok(Err(s)) => s,
        Err(_) => "panic".into(),
    }
}

fn opt_path(p: Option<&Path>) -> String {
    match p {
        None => "none".into(),
        Some(q) => format!("some {}", hx(q.as_os_str().as_bytes())),
    }
}

fn pcomps(p: &Path) -> String {
    let v: Vec<String> = p
        .components()
        .map(|c| match c {
            Component::RootDir => "R".to_string(),
            Component::CurDir => "C".to_string(),
            Component::ParentDir => "P".to_string(),
            Component::Normal(s) => format!("N:{}", hx(s.as_bytes())),
            Component::Prefix(_) => "X".to_string(),
        })
        .collect();
    if v.is_empty() { "-".into() } else { v.join(",") }
}

/// run `f` in a forked child: 0 ok, 1 err, 2 panic, 3 corrupt; killed by a signal → abort
fn in_child(f: impl FnOnce() -> i32) -> String {
    unsafe {
        let pid = libc::fork();
        if pid < 0 {
            return "fork-failed".into();
        }
        if pid == 0 {
            libc::alarm(300);
            let code = match std::panic::catch_unwind(AssertUnwindSafe(f)) {
                Ok(c) => c,
                Err(_) => 2,
            };
            libc::_exit(code);
        }
        let mut status: libc::c_int = 0;
        loop {
            let r = libc::waitpid(pid, &mut status, 0);
            if r == pid {
                break;
            }
            if r < 0 && std::io::Error::last_os_error().kind() != std::io::ErrorKind::Interrupted {
                return "wait-failed".into();
            }
        }
        if libc::WIFEXITED(status) {
            match libc::WEXITSTATUS(status) {
                0 => "ok".into(),
                1 => "err".into(),
                2 => "panic".into(),
                3 => "corrupt".into(),
                n => format!("exit-{}", n),
            }
        } else {
            "abort".into()
        }
    }
}

fn level(ty: &str, l: i64) -> Option<String> {
    let u = u32::try_from(l).ok();
    let c = match ty {
        "none" => Some(CompressionWithLevel::None),
        "gzip" => u.map(CompressionWithLevel::Gzip),
        "xz" => u.map(CompressionWithLevel::Xz),
        "bzip2" => u.map(CompressionWithLevel::Bzip2),
        "zstd" => i32::try_from(l).ok().map(CompressionWithLevel::Zstd),
        _ => return None,
    };
    let c = match c {
        Some(c) => c,
        None => return Some("unrepresentable".into()),
    };
    let src = source_file();
    Some(in_child(move || {
        let b = match builder().compression(c).with_file(src, FileOptions::new("/usr/bin/x")) {
            Ok(b) => b,
            Err(_) => return 1,
        };
        let pkg = match b.build() {
            Ok(p) => p,
            Err(_) => return 1,
        };
        // "ok" means a usable package: the payload must decompress to the file that went in
        let p = match roundtrip(&pkg) {
            Ok(p) => p,
            Err(_) => return 3,
        };
        let files: Vec<_> = match p.files() {
            Ok(it) => it.collect(),
            Err(_) => return 3,
        };
        if files.len() == 1 && matches!(&files[0], Ok(f) if f.content == SRC_CONTENT) { 0 } else { 3 }
    }))
}

/// the setter under catch_unwind, then build and read back
fn ts_apply<T, E>(setter: &str, t: T) -> String
where
    T: TryInto<Timestamp, Error = E>,
    E: std::fmt::Debug,
{
    if setter == "sg" {
        // `Package::sign_with_timestamp(signer, t)`: the same `t.try_into().unwrap()` on a built package; the signer
        // answers with a well-formed (RSA-algorithm) signature packet, so everything after the conversion succeeds
        #[derive(Debug)]
        struct FixedSigner;
        impl rpm::signature::Signing for FixedSigner {
            type Signature = Vec<u8>;
            fn sign(&self, _data: impl std::io::Read, _t: Timestamp) -> Result<Vec<u8>, Error> {
                Ok(crate::c10::crafted_sig_packet(1))
            }
            fn algorithm(&self) -> rpm::signature::AlgorithmType {
                rpm::signature::AlgorithmType::RSA
            }
        }
        let mut pkg = match builder().compression(CompressionType::None).build() {
            Ok(p) => p,
            Err(_) => return "err:build".into(),
        };
        return match guarded(AssertUnwindSafe(move || pkg.sign_with_timestamp(FixedSigner, t))) {
            Err(_) => "panic".into(),
            Ok(Err(_)) => "err".into(),
            Ok(Ok(())) => "ok".into(),
        };
    }
    let b = builder().compression(CompressionType::None);
    let set = guarded(AssertUnwindSafe(move || match setter {
        "sd" => b.source_date(t),
        _ => b.add_changelog_entry("A <a@b> - 1-1", "- x", t),
    }));
    let b = match set {
        Ok(b) => b,
        Err(_) => return "panic".into(),
    };
    match guarded(AssertUnwindSafe(move || b.build())) {
        Err(_) => "panic-build".into(),
        Ok(Err(_)) => "err".into(),
        Ok(Ok(pkg)) => {
            if setter == "sd" {
                "ok".into()
            } else {
                match pkg.metadata.get_changelog_entries() {
                    Ok(v) if v.len() == 1 => format!("ok {}", v[0].timestamp),
                    _ => "err:changelog".into(),
                }
            }
        }
    }
}

fn system_time(secs: i64, nanos: u32) -> Option<SystemTime> {
    const NS: u32 = 1_000_000_000;
    if secs >= 0 {
        SystemTime::UNIX_EPOCH.checked_add(Duration::new(secs as u64, nanos))
    } else if nanos == 0 {
        SystemTime::UNIX_EPOCH.checked_sub(Duration::new(secs.unsigned_abs(), 0))
    } else {
        SystemTime::UNIX_EPOCH.checked_sub(Duration::new(secs.unsigned_abs() - 1, NS - nanos))
    }
}

/// `tsset <sd|cl|sg> <u32|sys|utc|fix> secs nanos` (sg = `Package::sign_with_timestamp`: the same unwrap, on a package)
fn tsset(setter: &str, kind: &str, secs: i64, nanos: u32) -> Option<String> {
    if nanos >= 1_000_000_000 || (setter != "sd" && setter != "cl" && setter != "sg") {
        return None;
    }
    let un = || Some("unrepresentable".to_string());
    match kind {
        "u32" => match (u32::try_from(secs), nanos) {
            (Ok(n), 0) => Some(ts_apply(setter, n)),
            _ => un(),
        },
        "sys" => match system_time(secs, nanos) {
            Some(st) => Some(ts_apply(setter, st)),
            None => un(),
        },
        "utc" => match DateTime::<Utc>::from_timestamp(secs, nanos) {
            Some(dt) => Some(ts_apply(setter, dt)),
            None => un(),
        },
        "fix" => match DateTime::<Utc>::from_timestamp(secs, nanos) {
            Some(dt) => {
                let z: DateTime<FixedOffset> = dt.with_timezone(&FixedOffset::east_opt(20_700)?);
                Some(ts_apply(setter, z))
            }
            None => un(),
        },
        _ => None,
    }
}

/// `capsset H`: the setter's outcome (followed by with_file + build when it accepted) and the validator's
fn capsset(text: String) -> String {
    let v = match guarded(AssertUnwindSafe(|| FileCaps::from_str(&text).is_ok())) {
        Ok(true) => "ok",
        Ok(false) => "err",
        Err(_) => "panic",
    };
    let t2 = text.clone();
    let s = match guarded(AssertUnwindSafe(move || -> Result<(), Error> {
        let o = FileOptions::new("/x").caps(t2)?;
        let pkg = builder().compression(CompressionType::None).with_file(source_file(), o)?.build()?;
        let _ = roundtrip(&pkg);
        Ok(())
    })) {
        Ok(Ok(())) => "ok",
        Ok(Err(e)) => err_class(&e),
        Err(_) => "panic",
    };
    format!("{} {}", s, v)
}

/// `meta H`: the same text through every string setter of the builder, then build
/// several files in one package: the directory / base-name bookkeeping of `build()` over a whole layout
fn layout(dests: Vec<String>) -> String {
    match guarded(AssertUnwindSafe(move || -> Result<(), Error> {
        let mut b = builder().compression(CompressionType::None);
        for d in &dests {
            b = b.with_file(source_file(), FileOptions::new(d.clone()))?;
        }
        let pkg = b.build()?;
        let _ = roundtrip(&pkg);
        Ok(())
    })) {
        Ok(Ok(())) => "ok".into(),
        Ok(Err(e)) => err_class(&e).into(),
        Err(_) => "panic".into(),
    }
}

/// `leveld <type|default>`: `compression(CompressionType::<type>)` — the level is the library's default for the type — or no
/// `compression()` call at all (`CompressionWithLevel::default()`), then build; observed: what the header records
fn leveld(ty: &str) -> Option<String> {
    let ct = match ty {
        "default" => None,
        t => Some(t.parse::<CompressionType>().ok()?),
    };
    let src = source_file();
    Some(match guarded(AssertUnwindSafe(move || -> Result<String, ()> {
        let mut b = builder();
        if let Some(ct) = ct { b = b.compression(ct); }
        let pkg = b.with_file(src, FileOptions::new("/usr/bin/x")).map_err(|_| ())?.build().map_err(|_| ())?;
        let p = roundtrip(&pkg).map_err(|_| ())?;
        let files: Vec<_> = p.files().map_err(|_| ())?.collect();
        if !(files.len() == 1 && matches!(&files[0], Ok(f) if f.content == SRC_CONTENT)) { return Ok("corrupt".into()); }
        let h = &p.metadata.header;
        let name = h.get_entry_data_as_string(IndexTag::RPMTAG_PAYLOADCOMPRESSOR).map(|s| s.to_string()).unwrap_or("none".into());
        let flags = h.get_entry_data_as_string(IndexTag::RPMTAG_PAYLOADFLAGS).map(|s| s.to_string()).unwrap_or("-".into());
        Ok(format!("ok {} {}", name, flags))
    })) {
        Ok(Ok(s)) => s,
        Ok(Err(())) => "err".into(),
        Err(_) => "panic".into(),
    })
}

fn err_class_wf(e: &Error) -> &'static str {
    match e {
        Error::TimestampConv(_) => "err:TimestampConv",
        e => err_class(e),
    }
}

/// `wfile <kind> <perm> <secs> <nanos> <size> <dest> <setters>` (see lean/RpmVerif/Driver/WithFile.lean)
fn wfile(a: &[&str]) -> Option<String> {
    use std::os::unix::fs::{MetadataExt, PermissionsExt};
    let (kind, perm, secs, nanos, size) = (a[0], u32::from_str_radix(a[1], 8).ok()?, a[2].parse::<i64>().ok()?, a[3].parse::<u32>().ok()?, a[4].parse::<usize>().ok()?);
    if nanos >= 1_000_000_000 { return None; }
    let dest = String::from_utf8(unhx(a[5])).ok()?;
    let setters: Vec<&str> = if a[6] == "-" { vec![] } else { a[6].split(',').collect() };
    let dir = std::path::PathBuf::from(format!("{}/../work/wf-{}", env!("CARGO_MANIFEST_DIR"), std::process::id()));
    let _ = std::fs::remove_dir_all(&dir);
    std::fs::create_dir_all(&dir).ok()?;
    let src = dir.join("src");
    let content = crate::bld::content(7, size);
    let when = crate::bld::file_time(secs, nanos);
    let mut path = src.clone();
    // prepare the source
    let prep = (|| -> std::io::Result<()> {
        match kind {
            "reg" | "lnk" => {
                std::fs::write(&src, &content)?;
                std::fs::set_permissions(&src, std::fs::Permissions::from_mode(perm))?;
                let f = std::fs::File::options().write(true).open(&src)?;
                f.set_modified(when)?;
                drop(f);
                if kind == "lnk" {
                    path = dir.join("link");
                    std::os::unix::fs::symlink("src", &path)?;
                }
            }
            "dir" => {
                std::fs::create_dir(&src)?;
                std::fs::set_permissions(&src, std::fs::Permissions::from_mode(perm))?;
                let f = std::fs::File::open(&src)?;
                f.set_modified(when)?;
            }
            "fifo" => {
                let c = std::ffi::CString::new(src.as_os_str().as_bytes()).unwrap();
                if unsafe { libc::mkfifo(c.as_ptr(), 0o600) } != 0 { return Err(std::io::Error::last_os_error()); }
                std::fs::set_permissions(&src, std::fs::Permissions::from_mode(perm))?;
            }
            _ => {}
        }
        Ok(())
    })();
    if prep.is_err() { let _ = std::fs::remove_dir_all(&dir); return Some("st=- fs-unsupported".into()); }
    // what the operating system says the source is (and whether the file system kept the time we asked for)
    let st = match std::fs::metadata(&path) { Ok(m) => format!("{:o}", m.mode()), Err(_) => "-".into() };
    if matches!(kind, "reg" | "lnk" | "dir") {
        let kept = std::fs::metadata(&path).ok().map(|m| (m.mtime(), m.mtime_nsec() as u32)) == Some((secs, nanos));
        if !kept { let _ = std::fs::remove_dir_all(&dir); return Some(format!("st={} fs-unsupported", st)); }
    }
    // a FIFO needs a writer: opening it for writing blocks until `with_file` opens it for reading
    let writer = if kind == "fifo" {
        let (p, c) = (src.clone(), content.clone());
        Some(std::thread::spawn(move || {
            use std::io::Write;
            if let Ok(mut f) = std::fs::File::options().write(true).open(&p) { let _ = f.write_all(&c); }
        }))
    } else { None };
    let r = guarded(AssertUnwindSafe(|| -> Result<String, Error> {
        let mut o = FileOptions::new(dest);
        for s in &setters {
            let (k, v) = s.split_once('=').unwrap_or((s, ""));
            let text = || String::from_utf8(unhx(v)).expect("utf8");
            o = match k {
                "user" => o.user(text()),
                "group" => o.group(text()),
                "symlink" => o.symlink(text()),
                "caps" => o.caps(text())?,
                "mode" => o.mode(v.parse::<i32>().expect("i32")),
                "modeu" => o.mode(v.parse::<u16>().expect("u16")),
                "moder" => o.mode(rpm::FileMode::regular(u16::from_str_radix(v, 8).expect("perm"))),
                "moded" => o.mode(rpm::FileMode::dir(u16::from_str_radix(v, 8).expect("perm"))),
                "model" => o.mode(rpm::FileMode::symbolic_link(u16::from_str_radix(v, 8).expect("perm"))),
                "verify" => o.verify(rpm::FileVerifyFlags::from_bits_retain(v.parse().expect("u32"))),
                name => crate::bld::apply_flag_setter(o, name),
            };
        }
        let pkg = builder().compression(CompressionType::None).with_file(&path, o)?.build()?;
        let p = roundtrip(&pkg).map_err(|_| Error::from(std::io::Error::other("roundtrip")))?;
        let e = p.metadata.get_file_entries()?;
        let vf = p.metadata.header.get_entry_data_as_u32_array(IndexTag::RPMTAG_FILEVERIFYFLAGS)?;
        if e.len() != 1 || vf.len() != 1 { return Ok("err:shape".into()); }
        let e = &e[0];
        // the c_mode field of the (uncompressed) payload's first newc header: 6 bytes magic, 8 hex digits ino, 8 hex digits mode
        let cmode = p.content.get(14..22).and_then(|h| std::str::from_utf8(h).ok()).and_then(|h| u32::from_str_radix(h, 16).ok());
        Ok(format!(
            "ok mode={} cmode={} mtime={} flags={} user={} group={} link={} caps={} vf={} size={}",
            e.mode.raw_mode(), cmode.map(|c| c.to_string()).unwrap_or("?".into()),
            if kind == "fifo" { "~".to_string() } else { e.modified_at.0.to_string() },
            e.flags.bits(), hx(e.ownership.user.as_bytes()), hx(e.ownership.group.as_bytes()), hx(e.linkto.as_bytes()),
            e.caps.as_ref().map(|c| hx(c.to_string().as_bytes())).unwrap_or("~".into()), vf[0], e.size
        ))
    }));
    if let Some(w) = writer {
        // `with_file` may have failed before opening the FIFO (or before the writer got as far as its `open`): be a reader
        // ourselves — held until the writer is through, and draining what it writes — then wait for it
        if let Ok(mut rd) = std::fs::File::options().read(true).custom_flags(libc::O_NONBLOCK).open(&src) {
            use std::io::Read;
            let mut buf = [0u8; 4096];
            for _ in 0..20_000 {
                match rd.read(&mut buf) {
                    Ok(n) if n > 0 => continue,
                    _ => { if w.is_finished() { break; } std::thread::sleep(std::time::Duration::from_micros(500)); }
                }
            }
        }
        let _ = w.join();
    }
    let _ = std::fs::set_permissions(&src, std::fs::Permissions::from_mode(0o700));
    let _ = std::fs::remove_dir_all(&dir);
    Some(format!("st={} {}", st, match r {
        Ok(Ok(s)) => s,
        Ok(Err(e)) => err_class_wf(&e).to_string(),
        Err(_) => "panic".into(),
    }))
}

fn meta(s: String) -> String {
    let r = guarded(AssertUnwindSafe(|| -> Result<String, Error> {
        use rpm::{Dependency as D, Scriptlet};
        let scr = || Scriptlet::new(s.clone()).flags(rpm::ScriptletFlags::EXPAND).prog(vec![s.clone(), s.clone()]);
        let b = PackageBuilder::new(&s, &s, &s, &s, &s)
            .compression(CompressionType::None)
            .epoch(s.len() as u32)
            .release(s.clone())
            .url(s.clone())
            .vcs(s.clone())
            .description(s.clone())
            .vendor(s.clone())
            .packager(s.clone())
            .group(s.clone())
            .build_host(&s)
            .cookie(&s)
            .add_changelog_entry(&s, &s, 1u32)
            // every scriptlet setter: from the text itself (`impl From<T: Into<String>> for Scriptlet`) and from a `Scriptlet`
            .pre_install_script(s.as_str()).post_install_script(s.clone()).pre_uninstall_script(scr()).post_uninstall_script(scr())
            .pre_trans_script(s.as_str()).post_trans_script(scr()).pre_untrans_script(s.clone()).post_untrans_script(scr())
            .verify_script(scr())
            // every dependency setter
            .provides(D::eq(s.clone(), s.clone())).requires(D::any(s.clone())).conflicts(D::less(s.clone(), s.clone()))
            .obsoletes(D::greater_eq(s.clone(), s.clone())).recommends(D::user(&s)).suggests(D::group(&s))
            .enhances(D::config(&s, s.clone())).supplements(D::rpmlib(&s, s.clone()))
            .with_file(source_file(), FileOptions::new("/usr/bin/x").user(s.clone()).group(s.clone()).symlink(s.clone()))?;
        // every other text is built through `build_and_sign` (Ed25519 test key), the others through `build`
        let pkg = if s.len() % 2 == 1 {
            let key = std::fs::read("/repo/tests/assets/signing_keys/secret_ed25519.asc")?;
            b.build_and_sign(rpm::signature::pgp::Signer::load_from_asc_bytes(&key)?)?
        } else {
            b.build()?
        };
        // the round trip: every value comes back as given (a header string ends at its first NUL)
        let p = match roundtrip(&pkg) { Ok(p) => p, Err(e) => return Ok(e) };
        let m = &p.metadata;
        let eq = |r: Result<&str, Error>| r.map(|v| v == s).unwrap_or(false);
        let script_eq = |r: Result<Scriptlet, Error>, full: bool| r.map(|x| x.script == s && (!full || (x.flags == Some(rpm::ScriptletFlags::EXPAND)
            && x.program == Some(vec![s.clone(), s.clone()])))).unwrap_or(false);
        let dep_first = |r: Result<Vec<D>, Error>, name: &str, version: &str| r.map(|v| v.first().map(|d| d.name == name && d.version == version).unwrap_or(false)).unwrap_or(false);
        let mut bad: Vec<&str> = Vec::new();
        if !eq(m.get_name()) { bad.push("name"); }
        if !eq(m.get_version()) { bad.push("version"); }
        if !eq(m.get_release()) { bad.push("release"); }
        if !eq(m.get_arch()) { bad.push("arch"); }
        if !eq(m.get_license()) { bad.push("license"); }
        if !eq(m.get_summary()) { bad.push("summary"); }
        if !eq(m.get_description()) { bad.push("description"); }
        if !eq(m.get_url()) { bad.push("url"); }
        if !eq(m.get_vcs()) { bad.push("vcs"); }
        if !eq(m.get_vendor()) { bad.push("vendor"); }
        if !eq(m.get_packager()) { bad.push("packager"); }
        if !eq(m.get_group()) { bad.push("group"); }
        if !eq(m.get_build_host()) { bad.push("buildhost"); }
        if !eq(m.get_cookie()) { bad.push("cookie"); }
        if m.get_epoch().ok() != Some(s.len() as u32) { bad.push("epoch"); }
        if !script_eq(m.get_pre_install_script(), false) { bad.push("prein"); }
        if !script_eq(m.get_post_install_script(), false) { bad.push("postin"); }
        if !script_eq(m.get_pre_uninstall_script(), true) { bad.push("preun"); }
        if !script_eq(m.get_post_uninstall_script(), true) { bad.push("postun"); }
        if !script_eq(m.get_pre_trans_script(), false) { bad.push("pretrans"); }
        if !script_eq(m.get_post_trans_script(), true) { bad.push("posttrans"); }
        if !script_eq(m.get_pre_untrans_script(), false) { bad.push("preuntrans"); }
        if !script_eq(m.get_post_untrans_script(), true) { bad.push("postuntrans"); }
        if !dep_first(m.get_provides(), &s, &s) { bad.push("provides"); }
        if !dep_first(m.get_requires(), &s, "") { bad.push("requires"); }
        if !dep_first(m.get_conflicts(), &s, &s) { bad.push("conflicts"); }
        if !dep_first(m.get_obsoletes(), &s, &s) { bad.push("obsoletes"); }
        if !dep_first(m.get_recommends(), &format!("user({})", s), "") { bad.push("recommends"); }
        if !dep_first(m.get_suggests(), &format!("group({})", s), "") { bad.push("suggests"); }
        if !dep_first(m.get_enhances(), &format!("config({})", s), &s) { bad.push("enhances"); }
        if !dep_first(m.get_supplements(), &format!("rpmlib({})", s), &s) { bad.push("supplements"); }
        let cl_ok = m.get_changelog_entries().map(|v| v.len() == 1 && v[0].name == s && v[0].description == s && v[0].timestamp == 1).unwrap_or(false);
        if !cl_ok { bad.push("changelog"); }
        let f_ok = m.get_file_entries().map(|v| v.len() == 1 && v[0].ownership.user == s && v[0].ownership.group == s && v[0].linkto == s).unwrap_or(false);
        if !f_ok { bad.push("file"); }
        Ok(if bad.is_empty() { "ok rt=all".to_string() } else { format!("ok rt={}", bad.join("+")) })
    }));
    match r {
        Ok(Ok(s)) => s,
        Ok(Err(e)) => err_class(&e).into(),
        Err(_) => "panic".into(),
    }
}

/// `build17 <tokens>`: a whole call sequence on the builder in the token language of bld.rs (metadata — repeated tokens are
/// repeated calls —, `sdt=` / `clt=` typed timestamps, `f=` files incl. unreadable sources and out-of-range file times, `dp=`,
/// `sc=` / `scs=`, `cl=`, compression incl. refused levels, `lf=` large-file limit, `sgn=bs|b+s`), then `build()`:
/// `ok paysha=… archsha=… lead=… sig=… hdr=… hlen=… same=…` | `err:<class>` | `panic`
fn build17(tokens: &[&str]) -> String {
    let r = guarded(AssertUnwindSafe(|| -> Result<String, Error> {
        let b = crate::bld::builder_from(tokens)?;
        let pkg = crate::bld::build_pkg(b, tokens)?;
        Ok(crate::bld::observe_head(&pkg, tokens)?.0)
    }));
    crate::bld::cleanup();
    match r {
        Ok(Ok(s)) => s,
        Ok(Err(e)) => err_class_wf(&e).into(),
        Err(_) => "panic".into(),
    }
}

pub fn eval(op: &str, a: &[&str]) -> Option<String> {
    let text = |h: &str| String::from_utf8(unhx(h)).ok();
    match op {
        "build17" => Some(build17(a)),
        "dest" if a.len() == 1 => Some(dest(text(a[0])?)),
        "pcomps" if a.len() == 1 => Some(pcomps(Path::new(OsStr::from_bytes(&unhx(a[0]))))),
        "pparent" if a.len() == 1 => Some(opt_path(Path::new(OsStr::from_bytes(&unhx(a[0]))).parent())),
        "pfilename" if a.len() == 1 => {
            let b = unhx(a[0]);
            Some(match Path::new(OsStr::from_bytes(&b)).file_name() {
                None => "none".into(),
                Some(f) => format!("some {}", hx(f.as_bytes())),
            })
        }
        "pstrip" if a.len() == 1 => {
            let b = unhx(a[0]);
            Some(opt_path(Path::new(OsStr::from_bytes(&b)).strip_prefix(".").ok()))
        }
        "pjoin" if a.len() == 2 => {
            let (x, y) = (unhx(a[0]), unhx(a[1]));
            Some(hx(Path::new(OsStr::from_bytes(&x)).join(OsStr::from_bytes(&y)).as_os_str().as_bytes()))
        }
        // `levelnb`: the same request against rpm-rs built WITHOUT bzip2 support (only emitted by the nobz variant)
        "level" | "levelnb" if a.len() == 2 => level(a[0], a[1].parse().ok()?),
        "leveld" | "leveldnb" if a.len() == 1 => leveld(a[0]),
        "wfile17" | "wfile6" if a.len() == 7 => wfile(a),
        "tsset" if a.len() == 4 => tsset(a[0], a[1], a[2].parse().ok()?, a[3].parse().ok()?),
        "capsset" if a.len() == 1 => Some(capsset(text(a[0])?)),
        "meta" if a.len() == 1 => Some(meta(text(a[0])?)),
        "layout" if a.len() == 1 => {
            let dests: Option<Vec<String>> = a[0].split(',').map(|h| text(h)).collect();
            Some(layout(dests?))
        }
        _ => None,
    }
}

fn all_strings(alpha: &[&str], maxlen: usize) -> Vec<String> {
    let mut out = vec![String::new()];
    let mut layer = vec![String::new()];
    for _ in 0..maxlen {
        let mut next = Vec::with_capacity(layer.len() * alpha.len());
        for s in &layer {
            for c in alpha {
                next.push(format!("{}{}", s, c));
            }
        }
        out.extend(next.iter().cloned());
        layer = next;
    }
    out
}

fn path_ops(ctx: &mut Ctx, b: &[u8]) {
    let h = hx(b);
    ctx.req(&format!("pcomps {}", h));
    ctx.req(&format!("pparent {}", h));
    ctx.req(&format!("pfilename {}", h));
    ctx.req(&format!("pstrip {}", h));
}

fn dest_ops(ctx: &mut Ctx, s: &str) {
    ctx.req(&format!("dest {}", hx(s.as_bytes())));
    path_ops(ctx, s.as_bytes());
}

/// `wfile` / `wfile6` requests: the source file's kind, mode bits and mtime against option chains
pub fn gen_wfile(ctx: &mut Ctx, op: &str) {
    let h = |s: &str| hx(s.as_bytes());
    let (si, sn) = ctx.shard;
    let mut k = 0u64;
    let mut emit = |ctx: &mut Ctx, line: String| {
        k += 1;
        if k % sn == si { ctx.req(&format!("{} {}", op, line)); }
    };
    const TWO32: i64 = 1 << 32;
    let times: [(i64, u32); 16] = [(-1, 999_999_999), (-1, 0), (-2, 500_000_000), (-86_400, 0), (-2_147_483_648, 0), (0, 0), (0, 1),
        (1_500_000_000, 0), (1_500_000_000, 999_999_999), (2_147_483_648, 0), (TWO32 - 1, 0), (TWO32 - 1, 999_999_999), (TWO32, 0),
        (TWO32, 1), (TWO32 + 1, 0), (15_000_000_000, 0)];
    let perms = [0o644u32, 0o755, 0o600, 0, 0o7777, 0o4755, 0o2755, 0o1777, 0o6711, 0o1000, 0o4000, 0o2000, 0o111, 0o7000];
    let dests = ["/usr/bin/x", "./a", "/x", "/usr/..", "rel/x", "//a//b/"];
    let chains: Vec<String> = vec![
        "-".into(),
        "doc".into(), "config".into(), "config_noreplace".into(), "ghost".into(), "license".into(), "readme".into(),
        "doc,config,config_noreplace,ghost,license,readme".into(), "config_noreplace,config_noreplace".into(), "readme,doc".into(),
        format!("user={}", h("hugo")), format!("group={}", h("www-data")), format!("user={},group={},user={}", h("a"), h("b"), h("c")),
        format!("symlink={}", h("/usr/bin/target")), format!("caps={}", h("cap_chown=p")), format!("caps={}", h("cap_bogus=p")),
        format!("caps={},caps={}", h("cap_kill+e"), h("=e")), "verify=0".into(), "verify=4294967295".into(), "verify=96,verify=1".into(),
        "mode=33188".into(), "mode=33261,doc".into(), format!("doc,user={},mode=33261", h("u")), "mode=33188,mode=16877".into(),
        format!("mode=41471,symlink={}", h("t")), "mode=0".into(), "mode=-1".into(), "mode=-32768".into(), "mode=-32769".into(),
        "mode=65535".into(), "mode=65536".into(), "mode=94132".into(), "mode=98724".into(), "mode=2147483647".into(),
        "mode=-2147483648".into(), "mode=4516".into(), "mode=8612".into(), "mode=24996".into(), "mode=49572".into(),
        "modeu=33188".into(), "modeu=4516".into(), "modeu=65535".into(), "modeu=0".into(),
        "moder=644".into(), "moder=7777".into(), "moder=177777".into(), "moded=755".into(), "model=777".into(),
        format!("ghost,caps={},verify=3,mode=33188,group={},license", h("cap_net_raw+ep"), h("g")),
    ];
    // 1. every kind x permission bits x a few chains, at a plain time
    for kind in ["reg", "lnk", "fifo", "dir", "missing"] {
        for perm in perms {
            for chain in ["-", "mode=33188", "doc,mode=-1,config"] {
                emit(ctx, format!("{} {:o} 1500000000 0 13 {} {}", kind, perm, h("/usr/bin/x"), chain));
            }
        }
    }
    // 2. regular source: every time x inherit / explicit x good and bad destinations (the mtime error comes first)
    for (s, n) in times {
        for chain in ["-", "mode=33261", "ghost"] {
            for d in ["/usr/bin/x", "/usr/.."] {
                emit(ctx, format!("reg 644 {} {} 5 {} {}", s, n, h(d), chain));
            }
        }
        emit(ctx, format!("lnk 4755 {} {} 0 {} -", s, n, h("/l")));
        emit(ctx, format!("dir 755 {} {} 0 {} -", s, n, h("/d")));
    }
    // 3. every chain on a set-uid executable, every destination shape on a few chains
    for chain in &chains {
        emit(ctx, format!("reg 4755 1234567890 5 100 {} {}", h("/opt/tool"), chain));
        emit(ctx, format!("fifo 640 0 0 9 {} {}", h("/opt/pipe"), chain));
    }
    for d in dests {
        for chain in ["-", "mode=33188,doc", "caps=3d70"] {
            emit(ctx, format!("reg 644 1500000000 0 3 {} {}", h(d), chain));
        }
    }
    // 4. seeded combinations
    let n = ctx.q(300u64, 6000);
    for _ in 0..n {
        let kind = *ctx.rng.pick(&["reg", "reg", "reg", "lnk", "fifo", "dir", "missing"]);
        let perm = if ctx.rng.chance(1, 2) { *ctx.rng.pick(&perms) } else { ctx.rng.below(0o10000) as u32 };
        let (s, nn) = if ctx.rng.chance(2, 3) { (ctx.rng.range(0, 4_000_000_000), ctx.rng.below(1_000_000_000) as u32) } else { *ctx.rng.pick(&times) };
        let mut parts: Vec<String> = Vec::new();
        for _ in 0..ctx.rng.below(5) {
            let c = ctx.rng.pick(&chains).clone();
            if c != "-" { parts.push(c); }
        }
        if ctx.rng.chance(1, 3) { parts.push(format!("mode={}", ctx.rng.range(-70_000, 140_000))); }
        let chain = if parts.is_empty() { "-".to_string() } else { parts.join(",") };
        let size = *ctx.rng.pick(&[0usize, 1, 13, 4096, 70_000]);
        let d = *ctx.rng.pick(&dests);
        emit(ctx, format!("{} {:o} {} {} {} {} {}", kind, perm, s, nn, size, h(d), chain));
    }
}

/// rpm-rs without bzip2 support: every type x level is ok / err, never a panic; bzip2 is always refused
fn gen_nobz(ctx: &mut Ctx) {
    for ty in ["default", "none", "gzip", "zstd", "xz", "bzip2"] {
        if ctx.shard.0 == 0 { ctx.req(&format!("leveldnb {}", ty)); }
    }
    let mut k = 0u64;
    for ty in ["none", "gzip", "zstd", "xz", "bzip2"] {
        for l in [-1i64, 0, 1, 5, 9, 10, 19, 22, 23, 100, 2147483647, 4294967295] {
            k += 1;
            if k % ctx.shard.1 == ctx.shard.0 {
                ctx.req(&format!("levelnb {} {}", ty, l));
            }
        }
    }
}

/// whole-build cases for `build17`: hand-made sequences (every failure kind alone and against another one, in both orders;
/// repeated setters; typed timestamps at the edges of 1970..2106; the large-file switch at sum − 1 / sum / sum + 1 through the
/// hook; signing) and seeded configurations of the shared generator with such extras mixed in
pub fn gen_build17(ctx: &mut Ctx) {
    let h = |s: &str| hx(s.as_bytes());
    let (si, sn) = ctx.shard;
    let mut k = 0u64;
    let mut emit = |ctx: &mut Ctx, line: String| {
        k += 1;
        if k % sn == si { ctx.req(&format!("build17 {}", line)); }
    };
    let head = format!("n={} v={} l={} a={} s={} now=1700000000", h("pkg"), h("1.0"), h("MIT"), h("noarch"), h("sum"));
    let root = h("root");
    let file = |dest: &str, mode: &str, mtime: i64, seed: u64, size: usize, extra: &str| {
        format!("f={}:{}:{}:{}:0:~:-:{}:{}:{}:~{}", hx(dest.as_bytes()), mode, root, root, mtime, seed, size, extra)
    };
    let good = file("/usr/bin/x", "33188", 1_500_000_000, 4, 100, "");
    const T32: i64 = 1 << 32;
    // 1. plain, every compression kind, defaults
    for c in ["", "c=none", "c=gzip:6", "c=zstd:19", "c=xz:6", "c=bzip2:9", "c=gzip:d", "c=zstd:-7"] {
        emit(ctx, format!("{} {}", head, c));
        emit(ctx, format!("{} {} {}", head, c, good));
    }
    // 2. repeated setters: the last call wins (also for the compression: a refused level that is overwritten is no error)
    for rep in [format!("u={} u={}", h("a"), h("b")), format!("r={} r={} r={}", h("2"), h(""), h("3.fc40")), "e=1 e=4294967295 e=7".to_string(),
                format!("d={} d={}", h("x"), h("")), format!("ve={} pk={} ve={}", h("v1"), h("p"), h("v2")), format!("g={} g={}", h("G1"), h("G2")),
                format!("vc={} vc={} ck={} ck={} bh={} bh={}", h("1"), h("2"), h("3"), h("4"), h("5"), h("6")),
                "c=gzip:10 c=none".to_string(), "c=none c=gzip:10".to_string(), "c=zstd:3 c=xz:d c=zstd:3".to_string(),
                format!("sc=prein:{}:1:~ sc=prein:{}:~:{}", h("a"), h("b"), h("/bin/sh")), format!("scs=postin:{} sc=postin:{}:2:- scs=postin:{}", h("x"), h("y"), h("zz")),
                format!("cl={}:{}:1 cl={}:{}:1", h("a"), h("t"), h("a"), h("t")), format!("dp=req:{}:8:{} dp=req:{}:8:{}", h("w"), h("1"), h("w"), h("1"))] {
        emit(ctx, format!("{} c=none {}", head, rep));
    }
    // 3. typed timestamps at the edges, as source date and as changelog time, alone and before / after a failing file
    let missing = file("/opt/m", "33188", 1_500_000_000, 5, 3, ":k=missing");
    for kind in ["sys", "utc", "fix"] {
        for (s, n) in [(-1i64, 999_999_999u32), (-1, 0), (0, 0), (0, 999_999_999), (1_600_000_000, 5), (T32 - 1, 0), (T32 - 1, 999_999_999), (T32, 0), (T32 + 5, 1), (-86_400, 0)] {
            emit(ctx, format!("{} c=none sdt={}:{}:{}", head, kind, s, n));
            emit(ctx, format!("{} c=none {} clt={}:{}:{}:{}:{}", head, good, h("me"), h("t"), kind, s, n));
            if n == 0 {
                emit(ctx, format!("{} c=none sdt={}:{}:{} {}", head, kind, s, n, missing));
                emit(ctx, format!("{} c=none sdt={}:{}:{} {} sdlast", head, kind, s, n, missing));
                emit(ctx, format!("{} c=none {} clt={}:{}:{}:{}:{}", head, missing, h("me"), h("t"), kind, s, n));
            }
        }
    }
    emit(ctx, format!("{} c=none sdt=u32:4294967295:0 clt={}:{}:u32:0:0", head, h("a"), h("b")));
    // 4. every failure of `with_file`, alone, after a good file, before a refused compression level
    let bad_time_lo = file("/opt/t", "33188", -1, 6, 3, ":ns=999999999");
    let bad_time_hi = file("/opt/t", "i420", T32, 6, 3, "");
    let bad_dest = file("/usr/..", "33188", 1_500_000_000, 6, 3, "");
    let rel_dest = file("usr/x", "33188", 1_500_000_000, 6, 3, "");
    let isdir = file("/opt/d", "33188", 1_500_000_000, 6, 3, ":k=dir");
    let bad_caps = format!("f={}:33188:{}:{}:0:{}:-:1500000000:6:3:~", h("/opt/c"), root, root, h("cap_bogus=p"));
    let bad_caps2 = format!("f={}:33188:{}:{}:0:{}:-:-5:6:3:~", h("/usr/.."), root, root, h("cap_chown"));
    for f in [&missing, &bad_time_lo, &bad_time_hi, &bad_dest, &rel_dest, &isdir, &bad_caps, &bad_caps2] {
        emit(ctx, format!("{} c=none {}", head, f));
        emit(ctx, format!("{} c=none {} {}", head, good, f));
        emit(ctx, format!("{} c=gzip:10 {}", head, f));
        emit(ctx, format!("{} c=none {} {}", head, f, bad_dest));
    }
    // 5. the large-file switch around the combined size (hook), both archive forms, with and without files
    for lf in [0u64, 1, 110, 111, 112, 4294967295, 4294967296] {
        emit(ctx, format!("{} c=none lf={}", head, lf));
        emit(ctx, format!("{} c=none lf={} {} {}", head, lf, good, file("/a", "i420", 1_500_000_001, 7, 11, "")));
        emit(ctx, format!("{} c=gzip:1 lf={} {} {} {}", head, lf, good, file("/a", "i420", 1_500_000_001, 7, 11, ""), file("/a", "i420", 1_500_000_001, 9, 50, "")));
    }
    // 6. directory layouts whose byte order differs from their component order, `.` / `//` / trailing separators, duplicates
    for dests in [vec!["/a-b/f", "/a/f"], vec!["/a/m.txt", "/a/m/x"], vec!["/a/./b", "/a/b"], vec!["/a/b/", "/a/b"], vec!["//a//b", "/a/b"],
                  vec!["/a/b", "/a/b"], vec!["./a/b", "/a/b"], vec!["/ü/x", "/z/x", "/a b/x", "/A/x"], vec!["/x", "/y/x", "/y/z/x", "/y/z/w/x"]] {
        let fs: Vec<String> = dests.iter().enumerate().map(|(i, d)| file(d, "33188", 1_500_000_000, 10 + i as u64, 5 + i, "")).collect();
        emit(ctx, format!("{} c=none {}", head, fs.join(" ")));
        let rev: Vec<String> = fs.iter().rev().cloned().collect();
        emit(ctx, format!("{} c=none {}", head, rev.join(" ")));
    }
    // 7. metadata strings of every awkward kind through `new` and the setters (NUL included: the header cuts there, nothing panics)
    let long300 = "x".repeat(300);
    for sx in ["", " ", "a\u{0}b", "é", "𝄞 4-byte", "line\nbreak", long300.as_str()] {
        let x = h(sx);
        emit(ctx, format!("n={} v={} l={} a={} s={} now=1700000000 c=none r={} d={} ve={} pk={} g={} u={} vc={} ck={} bh={} cl={}:{}:5 scs=verify:{} dp=sug:{}:0:{} {}",
            x, x, x, x, x, x, x, x, x, x, x, x, x, x, x, x, x, x, x,
            format!("f={}:33188:{}:{}:0:~:{}:1500000000:4:9:~", h("/usr/bin/x"), x, x, x)));
    }
    // 8. signing: build_and_sign and build + sign
    for sg in ["bs", "b+s"] {
        emit(ctx, format!("{} c=none sgn={}", head, sg));
        emit(ctx, format!("{} c=zstd:3 sgn={} sd=1600000000 {}", head, sg, good));
        emit(ctx, format!("{} c=none sgn={} {}", head, sg, missing));
        emit(ctx, format!("{} c=gzip:10 sgn={}", head, sg));
    }
    // 9. seeded: configurations of the shared generator with extras
    let n = ctx.q(240u64, 6_000);
    let sizes = [0usize, 1, 3, 4, 5, 100, 4096, 20_000];
    for i in 0..n {
        let mut cfg = crate::c06::gen_cfg(&mut ctx.rng, &sizes);
        let r = &mut ctx.rng;
        if r.chance(1, 3) {
            let (s, ns) = *r.pick(&[(-1i64, 0u32), (0, 1), (1_650_000_000, 0), (T32 - 1, 999_999_999), (T32, 0)]);
            cfg.push_str(&format!(" sdt={}:{}:{}", r.pick(&["sys", "utc", "fix"]), s, ns));
        }
        if r.chance(1, 3) {
            let (s, ns) = *r.pick(&[(-2i64, 5u32), (0, 0), (1_650_000_000, 7), (T32 - 1, 0), (T32 + 1, 0)]);
            cfg.push_str(&format!(" clt={}:{}:{}:{}:{}", h("x <x@y>"), h("- t"), r.pick(&["sys", "utc", "fix", "u32"]), s, ns));
        }
        if r.chance(1, 4) { cfg.push_str(&format!(" {}", r.pick(&[&missing, &bad_time_lo, &bad_time_hi, &bad_dest, &isdir, &bad_caps]))); }
        if r.chance(1, 4) { cfg.push_str(&format!(" u={} r={} e={}", h("again"), h("9"), r.below(5))); }
        if r.chance(1, 5) { cfg.push_str(&format!(" c={}", r.pick(&["none", "gzip:10", "zstd:23", "xz:9", "bzip2:0", "zstd:-131073"]))); }
        if r.chance(1, 4) { cfg.push_str(&format!(" lf={}", r.pick(&[0u64, 3, 100, 4096, 24_000, 100_000]))); }
        if r.chance(1, 6) { cfg.push_str(&format!(" sgn={}", r.pick(&["bs", "b+s"]))); }
        if i % sn == si { ctx.req(&format!("build17 {}", cfg)); }
    }
}

pub fn gen(ctx: &mut Ctx) {
    if ctx.variant == "nobz" {
        return gen_nobz(ctx);
    }
    gen_wfile(ctx, "wfile17");
    gen_build17(ctx);
    if ctx.shard.0 == 0 {
        for ty in ["default", "none", "gzip", "zstd", "xz", "bzip2"] {
            ctx.req(&format!("leveld {}", ty));
        }
        // layouts: every non-empty subset (as a sequence, two orders) of a small tree in which files sit beside
        // sub-directories that sort before / after them, plus duplicates and odd spellings
        let tree = ["/a/z", "/a/m/x", "/a/m/n/y", "/a/b", "/a/zz/q", "/b", "/a/m.txt", "/a/m/x/deep", "./a/k", "//a//m//w"];
        for mask in 1u32..(1 << tree.len()) {
            if mask.count_ones() > 4 { continue; }
            let picked: Vec<&str> = (0..tree.len()).filter(|i| mask & (1 << i) != 0).map(|i| tree[i]).collect();
            let fwd: Vec<String> = picked.iter().map(|d| hx(d.as_bytes())).collect();
            ctx.req(&format!("layout {}", fwd.join(",")));
            if picked.len() > 1 {
                let rev: Vec<String> = picked.iter().rev().map(|d| hx(d.as_bytes())).collect();
                ctx.req(&format!("layout {}", rev.join(",")));
            }
        }
        ctx.req(&format!("layout {},{}", hx(b"/a/z"), hx(b"/a/z")));
        ctx.req(&format!("layout {},{},{}", hx(b"/etc/demo/hugo/aa.toml"), hx(b"/etc/demo/zazz.toml"), hx(b"/etc/demo/a")));
    }
    let (si, sn) = ctx.shard;
    let mut idx: u64 = 0;
    let mine = |idx: &mut u64| {
        *idx += 1;
        *idx % sn == si
    };

    // 1. every destination over {'/', '.', 'a'} up to length 8 / 11: the builder and the path functions
    for s in all_strings(&["/", ".", "a"], ctx.q(8, 11)) {
        if mine(&mut idx) {
            dest_ops(ctx, &s);
        }
    }
    // 2. token strings with "..", a two-letter name and a dotted name
    for s in all_strings(&["/", ".", "..", "a", "b.c"], ctx.q(5, 7)) {
        if mine(&mut idx) {
            dest_ops(ctx, &s);
        }
    }
    // 3. hand-picked: the former panic witnesses, long / deep / multi-byte / NUL / blank destinations
    let long_name = "n".repeat(5000);
    let deep = "/d".repeat(2000);
    let mut special: Vec<String> = [
        "./", "/usr/..", "./..", "/..", "./a/..", "", ".", "..", "/", "//", "/.", "/./", ".//", "./.", "././", "./a", "/a", "//a", "./a/b",
        "/usr/bin/x", "./usr/bin/x", "/usr//bin///x", "/a/./b/", "/a/b/../c", "./a/b/../c", "/a/..b", "/a/b..", "/...", "./...", "/a/.../b",
        "/é", "/ü/日本/語", "./é/..", "/a b/c d", "/ ", "/a\u{0}b/c", "/a/b\u{0}", "/\u{0}", "./\u{0}/x", "/a\n/b", "/\u{7f}", "/a/\u{10ffff}",
        "usr/bin/x", "a", ".a", "..a", ".a/b", "~/.x", "\\a", "C:\\a", "/a\\b",
    ]
    .iter()
    .map(|s| s.to_string())
    .collect();
    special.push(format!("/{}", long_name));
    special.push(format!("./{}/{}", long_name, long_name));
    special.push(deep.clone());
    special.push(format!("{}/..", deep));
    special.push(format!(".{}/.", deep));
    special.push("/".repeat(3000));
    special.push(format!("/a{}", "/.".repeat(1500)));
    for s in &special {
        if mine(&mut idx) {
            dest_ops(ctx, s);
        }
    }
    // path functions on bytes that are not UTF-8, and `join` as get_file_paths() uses it
    let raw: [&[u8]; 8] = [b"/\xff", b"./\xff/\x80", b"\xff/a", b"/a/\xc3", b".\xff", b"./a\xff/..", b"/\xed\xa0\x80/x", b"\xc3\xa9/"];
    for b in raw {
        if mine(&mut idx) {
            path_ops(ctx, b);
        }
    }
    let joins = [
        ("/usr/bin/", "x"), ("/usr/bin", "x"), ("/usr/bin/", "/x"), ("", "x"), ("/", "x"), ("//", "x"), ("/a/", ""), ("/a", "../b"),
        ("/a/", "."), ("/a//", "b"), ("a", "b"), ("", ""), ("/", ""), ("/a", "//b"), ("/é/", "ü"), ("/a/.", "b"),
    ];
    for (x, y) in joins {
        if mine(&mut idx) {
            ctx.req(&format!("pjoin {} {}", hx(x.as_bytes()), hx(y.as_bytes())));
        }
    }
    // 4. seeded longer destinations
    const TOK: &[&str] = &["/", "/", "//", ".", "..", "./", "/.", "a", "b.c", "é", " ", "..a", "...", "usr"];
    let n = ctx.q(20_000u64, 300_000) / sn;
    for _ in 0..n {
        let k = 1 + ctx.rng.below(12) as usize;
        let mut s = String::from(*ctx.rng.pick(&["/", "/", "./", "./", "", "."]));
        for _ in 0..k {
            s.push_str(*ctx.rng.pick(TOK));
            if ctx.rng.chance(1, 100) {
                s.push('\u{0}');
            }
        }
        dest_ops(ctx, &s);
    }

    // 5. every compression type, levels across and beyond its range (each build in a child process)
    let mut levels: Vec<i64> = vec![-1];
    levels.extend(0..=25);
    levels.extend_from_slice(&[100, i32::MAX as i64, u32::MAX as i64]);
    for ty in ["none", "gzip", "zstd", "xz", "bzip2"] {
        let mut ls = if ty == "none" { vec![0] } else { levels.clone() };
        if ty == "zstd" {
            ls.extend_from_slice(&[-131072, -131073, i32::MIN as i64, -7, -22, -100_000, 2147483648, -2147483649]);
        }
        if ctx.thorough && ty != "none" {
            ls.extend_from_slice(&[26, 31, 32, 33, 63, 64, 65, 255, 256, 65535, 65536, 1 << 24, (1i64 << 31), u32::MAX as i64 - 1, 1i64 << 32]);
        }
        for l in ls {
            if mine(&mut idx) {
                ctx.req(&format!("level {} {}", ty, l));
            }
        }
    }

    // 6. timestamp setters at the boundaries, every argument type
    const TWO32: i64 = 1 << 32;
    let min = DateTime::<Utc>::MIN_UTC.timestamp();
    let max = DateTime::<Utc>::MAX_UTC.timestamp();
    let mut instants: Vec<(i64, u32)> = vec![
        (-1, 999_999_999), (-1, 0), (-1, 1), (0, 0), (0, 1), (0, 999_999_999), (1, 0), (1_600_000_000, 0), (1_600_000_000, 500_000_000),
        ((1 << 31) - 1, 0), (1 << 31, 0), (TWO32 - 1, 0), (TWO32 - 1, 999_999_999), (TWO32, 0), (TWO32, 1), (TWO32 + 1, 0),
        (1 << 33, 0), (1 << 40, 0), (-(1 << 40), 0), (-(1 << 31), 0), (-TWO32, 0), (min, 0), (min + 1, 0), (min - 1, 0), (max, 0), (max + 1, 0),
        (1 << 53, 0), (-(1 << 53), 0), (i64::MAX, 0), (i64::MIN, 0), (i64::MAX, 999_999_999), (i64::MIN + 1, 1),
    ];
    for d in 2..=ctx.q(40i64, 2000) {
        instants.extend_from_slice(&[(-d, 0), (d, 7), (TWO32 - d, 3), (TWO32 + d, 0)]);
    }
    for _ in 0..ctx.q(300, 5000) {
        let c = *ctx.rng.pick(&[0i64, 0, TWO32, TWO32, 1 << 31]);
        let k = ctx.rng.below(41) as u32;
        let d = ctx.rng.range(-(1i64 << k), 1i64 << k);
        instants.push((c + d, if ctx.rng.chance(1, 2) { 0 } else { ctx.rng.below(1_000_000_000) as u32 }));
    }
    let fixed_instants = 32usize;
    for (i, (s, n)) in instants.into_iter().enumerate() {
        // `sg` (sign_with_timestamp on a built package) is the same conversion + unwrap: the hand-picked instants only
        for setter in if i < fixed_instants || i % 16 == 0 { &["sd", "cl", "sg"][..] } else { &["sd", "cl"][..] } {
            for kind in ["u32", "sys", "utc", "fix"] {
                if kind == "u32" && n != 0 {
                    continue;
                }
                if mine(&mut idx) {
                    ctx.req(&format!("tsset {} {} {} {}", setter, kind, s, n));
                }
            }
        }
    }

    // 7. capability text over the C19 alphabet
    let caps_tok = ["cap_chown", "cap_kill", "all", "cap_bogus", ",", "=", "+", "-", "e", "i", "p", "x", " "];
    for s in all_strings(&caps_tok, ctx.q(3, 4)) {
        if mine(&mut idx) {
            ctx.req(&format!("capsset {}", hx(s.as_bytes())));
        }
    }
    for s in ["cap_net_admin,cap_net_raw+ep", "cap_chown=p cap_kill+i", "=e +p", "=", "all=eip", "ALL=eip", "Cap_Chown+e", "cap_chown+é", "é", "\u{0}",
              "cap_chown+ep\u{0}", "cap_chown +ep", "\tcap_chown+e\n", "cap_checkpoint_restore-e", "cap_chown,cap_bogus+e", "cap_chown,,cap_kill+e", "cap_chown+e=p-i",
              // numbers, white space only, non-ASCII look-alikes, very long names (seeds C17-9, C17-10, C19-8)
              "45=p", "0=e", "40+p", "41=ep", "63=p", "64=p", "cap_chown,45=p", " ", "\t", " \n", "\u{a0}", "cap_k\u{131}ll=ep",
              "cap_net_bind_service_in_the_caf\u{e9}=ep", "+cap_net_bind_service_in_the_caf\u{e9}\u{e9}\u{e9}"] {
        if mine(&mut idx) {
            ctx.req(&format!("capsset {}", hx(s.as_bytes())));
        }
    }

    // 8. metadata strings
    let big = "x".repeat(70_000);
    for s in ["", "n", "a b", "é", "日本語", "a\u{0}b", "\u{0}", "-", "a-b-c", "1:2-3", "/", "..", "%{name}", "\n", "\u{10ffff}",
              &"é".repeat(33), &"n".repeat(65), &"n".repeat(66), &"é".repeat(40), big.as_str()] {
        if mine(&mut idx) {
            ctx.req(&format!("meta {}", hx(s.as_bytes())));
        }
    }
}
