//! C17: the builder's argument setters on real values — destinations (`with_file` → `add_data`), the
//! `std::path` functions `add_data` relies on (validated one by one), compression levels (in a child
//! process: an encoder may panic or abort), timestamp setters, capability text, metadata strings.
use crate::common::*;
use chrono::{DateTime, FixedOffset, Utc};
use rpm::{CompressionType, CompressionWithLevel, Error, FileCaps, FileOptions, IndexTag, Package, PackageBuilder, Timestamp};
use std::ffi::OsStr;
use std::os::unix::ffi::OsStrExt;
use std::panic::AssertUnwindSafe;
use std::path::{Component, Path};
use std::str::FromStr;
use std::sync::OnceLock;
use std::time::{Duration, SystemTime};

const SRC_CONTENT: &[u8] = b"c17 payload: the quick brown fox jumps over the lazy dog\n";

/// a small real source file, created once under work/ (atomically: shards start concurrently)
fn source_file() -> &'static str {
    static P: OnceLock<String> = OnceLock::new();
    P.get_or_init(|| {
        let dir = concat!(env!("CARGO_MANIFEST_DIR"), "/../work");
        let _ = std::fs::create_dir_all(dir);
        let p = format!("{}/c17_src.txt", dir);
        if std::fs::read(&p).map(|c| c != SRC_CONTENT).unwrap_or(true) {
            let tmp = format!("{}.{}", p, std::process::id());
            std::fs::write(&tmp, SRC_CONTENT).expect("write source file");
            std::fs::rename(&tmp, &p).expect("rename source file");
        }
        p
    })
}

fn builder() -> PackageBuilder {
    PackageBuilder::new("n", "1", "MIT", "noarch", "s")
}

fn err_class(e: &Error) -> &'static str {
    match e {
        Error::InvalidDestinationPath { .. } => "err:InvalidDestinationPath",
        Error::InvalidCapabilities { .. } => "err:InvalidCapabilities",
        Error::Io(_) => "err:io",
        _ => "err:other",
    }
}

fn roundtrip(pkg: &Package) -> Result<Package, String> {
    let mut w = Vec::new();
    pkg.write(&mut w).map_err(|_| "err:write".to_string())?;
    Package::parse(&mut &w[..]).map_err(|_| "err:parse".to_string())
}

/// `dest H`: with_file(src, FileOptions::new(dest)) → build → write → parse → read back
fn dest(d: String) -> String {
    let r = guarded(AssertUnwindSafe(|| -> Result<String, String> {
        let b = builder()
            .compression(CompressionType::None)
            .with_file(source_file(), FileOptions::new(d))
            .map_err(|e| err_class(&e).to_string())?;
        let pkg = b.build().map_err(|e| err_class(&e).to_string())?;
        let p = roundtrip(&pkg)?;
        let h = &p.metadata.header;
        let dirs = h.get_entry_data_as_string_array(IndexTag::RPMTAG_DIRNAMES).map_err(|_| "err:dirnames".to_string())?;
        let bases = h.get_entry_data_as_string_array(IndexTag::RPMTAG_BASENAMES).map_err(|_| "err:basenames".to_string())?;
        let idx = h.get_entry_data_as_u32_array(IndexTag::RPMTAG_DIRINDEXES).map_err(|_| "err:dirindexes".to_string())?;
        let paths = p.metadata.get_file_paths().map_err(|_| "err:paths".to_string())?;
        let entries = p.metadata.get_file_entries().map_err(|_| "err:entries".to_string())?;
        if bases.len() != 1 || idx.len() != 1 || paths.len() != 1 || entries.len() != 1 || idx[0] as usize >= dirs.len() {
            return Err("err:shape".into());
        }
        if entries[0].path != paths[0] {
            return Err("err:entry-path".into());
        }
        Ok(format!(
            "ok {} {} {}",
            hx(dirs[idx[0] as usize].as_bytes()),
            hx(bases[0].as_bytes()),
            hx(paths[0].as_os_str().as_bytes())
        ))
    }));
    match r {
        Ok(Ok(s)) | Ok(Err(s)) => s,
        Err(_) => "panic".into(),
    }
}

fn opt_path(p: Option<&Path>) -> String {
    match p {
        None => "none".into(),
        Some(q) => format!("some {}", hx(q.as_os_str().as_bytes())),
    }
}

fn pcomps(p: &Path) -> String {
    let v: Vec<String> = p
        .components()
        .map(|c| match c {
            Component::RootDir => "R".to_string(),
            Component::CurDir => "C".to_string(),
            Component::ParentDir => "P".to_string(),
            Component::Normal(s) => format!("N:{}", hx(s.as_bytes())),
            Component::Prefix(_) => "X".to_string(),
        })
        .collect();
    if v.is_empty() { "-".into() } else { v.join(",") }
}

/// run `f` in a forked child: 0 ok, 1 err, 2 panic, 3 corrupt; killed by a signal → abort
fn in_child(f: impl FnOnce() -> i32) -> String {
    unsafe {
        let pid = libc::fork();
        if pid < 0 {
            return "fork-failed".into();
        }
        if pid == 0 {
            libc::alarm(300);
            let code = match std::panic::catch_unwind(AssertUnwindSafe(f)) {
                Ok(c) => c,
                Err(_) => 2,
            };
            libc::_exit(code);
        }
        let mut status: libc::c_int = 0;
        loop {
            let r = libc::waitpid(pid, &mut status, 0);
            if r == pid {
                break;
            }
            if r < 0 && std::io::Error::last_os_error().kind() != std::io::ErrorKind::Interrupted {
                return "wait-failed".into();
            }
        }
        if libc::WIFEXITED(status) {
            match libc::WEXITSTATUS(status) {
                0 => "ok".into(),
                1 => "err".into(),
                2 => "panic".into(),
                3 => "corrupt".into(),
                n => format!("exit-{}", n),
            }
        } else {
            "abort".into()
        }
    }
}

fn level(ty: &str, l: i64) -> Option<String> {
    let u = u32::try_from(l).ok();
    let c = match ty {
        "none" => Some(CompressionWithLevel::None),
        "gzip" => u.map(CompressionWithLevel::Gzip),
        "xz" => u.map(CompressionWithLevel::Xz),
        "bzip2" => u.map(CompressionWithLevel::Bzip2),
        "zstd" => i32::try_from(l).ok().map(CompressionWithLevel::Zstd),
        _ => return None,
    };
    let c = match c {
        Some(c) => c,
        None => return Some("unrepresentable".into()),
    };
    let src = source_file();
    Some(in_child(move || {
        let b = match builder().compression(c).with_file(src, FileOptions::new("/usr/bin/x")) {
            Ok(b) => b,
            Err(_) => return 1,
        };
        let pkg = match b.build() {
            Ok(p) => p,
            Err(_) => return 1,
        };
        // "ok" means a usable package: the payload must decompress to the file that went in
        let p = match roundtrip(&pkg) {
            Ok(p) => p,
            Err(_) => return 3,
        };
        let files: Vec<_> = match p.files() {
            Ok(it) => it.collect(),
            Err(_) => return 3,
        };
        if files.len() == 1 && matches!(&files[0], Ok(f) if f.content == SRC_CONTENT) { 0 } else { 3 }
    }))
}

/// the setter under catch_unwind, then build and read back
fn ts_apply<T, E>(setter: &str, t: T) -> String
where
    T: TryInto<Timestamp, Error = E>,
    E: std::fmt::Debug,
{
    if setter == "sg" {
        // `Package::sign_with_timestamp(signer, t)`: the same `t.try_into().unwrap()` on a built package; the signer
        // answers with a well-formed (RSA-algorithm) signature packet, so everything after the conversion succeeds
        #[derive(Debug)]
        struct FixedSigner;
        impl rpm::signature::Signing for FixedSigner {
            type Signature = Vec<u8>;
            fn sign(&self, _data: impl std::io::Read, _t: Timestamp) -> Result<Vec<u8>, Error> {
                Ok(crate::c10::crafted_sig_packet(1))
            }
            fn algorithm(&self) -> rpm::signature::AlgorithmType {
                rpm::signature::AlgorithmType::RSA
            }
        }
        let mut pkg = match builder().compression(CompressionType::None).build() {
            Ok(p) => p,
            Err(_) => return "err:build".into(),
        };
        return match guarded(AssertUnwindSafe(move || pkg.sign_with_timestamp(FixedSigner, t))) {
            Err(_) => "panic".into(),
            Ok(Err(_)) => "err".into(),
            Ok(Ok(())) => "ok".into(),
        };
    }
    let b = builder().compression(CompressionType::None);
    let set = guarded(AssertUnwindSafe(move || match setter {
        "sd" => b.source_date(t),
        _ => b.add_changelog_entry("A <a@b> - 1-1", "- x", t),
    }));
    let b = match set {
        Ok(b) => b,
        Err(_) => return "panic".into(),
    };
    match guarded(AssertUnwindSafe(move || b.build())) {
        Err(_) => "panic-build".into(),
        Ok(Err(_)) => "err".into(),
        Ok(Ok(pkg)) => {
            if setter == "sd" {
                "ok".into()
            } else {
                match pkg.metadata.get_changelog_entries() {
                    Ok(v) if v.len() == 1 => format!("ok {}", v[0].timestamp),
                    _ => "err:changelog".into(),
                }
            }
        }
    }
}

fn system_time(secs: i64, nanos: u32) -> Option<SystemTime> {
    const NS: u32 = 1_000_000_000;
    if secs >= 0 {
        SystemTime::UNIX_EPOCH.checked_add(Duration::new(secs as u64, nanos))
    } else if nanos == 0 {
        SystemTime::UNIX_EPOCH.checked_sub(Duration::new(secs.unsigned_abs(), 0))
    } else {
        SystemTime::UNIX_EPOCH.checked_sub(Duration::new(secs.unsigned_abs() - 1, NS - nanos))
    }
}

/// `tsset <sd|cl|sg> <u32|sys|utc|fix> secs nanos` (sg = `Package::sign_with_timestamp`: the same unwrap, on a package)
fn tsset(setter: &str, kind: &str, secs: i64, nanos: u32) -> Option<String> {
    if nanos >= 1_000_000_000 || (setter != "sd" && setter != "cl" && setter != "sg") {
        return None;
    }
    let un = || Some("unrepresentable".to_string());
    match kind {
        "u32" => match (u32::try_from(secs), nanos) {
            (Ok(n), 0) => Some(ts_apply(setter, n)),
            _ => un(),
        },
        "sys" => match system_time(secs, nanos) {
            Some(st) => Some(ts_apply(setter, st)),
            None => un(),
        },
        "utc" => match DateTime::<Utc>::from_timestamp(secs, nanos) {
            Some(dt) => Some(ts_apply(setter, dt)),
            None => un(),
        },
        "fix" => match DateTime::<Utc>::from_timestamp(secs, nanos) {
            Some(dt) => {
                let z: DateTime<FixedOffset> = dt.with_timezone(&FixedOffset::east_opt(20_700)?);
                Some(ts_apply(setter, z))
            }
            None => un(),
        },
        _ => None,
    }
}

/// `capsset H`: the setter's outcome (followed by with_file + build when it accepted) and the validator's
fn capsset(text: String) -> String {
    let v = match guarded(AssertUnwindSafe(|| FileCaps::from_str(&text).is_ok())) {
        Ok(true) => "ok",
        Ok(false) => "err",
        Err(_) => "panic",
    };
    let t2 = text.clone();
    let s = match guarded(AssertUnwindSafe(move || -> Result<(), Error> {
        let o = FileOptions::new("/x").caps(t2)?;
        let pkg = builder().compression(CompressionType::None).with_file(source_file(), o)?.build()?;
        let _ = roundtrip(&pkg);
        Ok(())
    })) {
        Ok(Ok(())) => "ok",
        Ok(Err(e)) => err_class(&e),
        Err(_) => "panic",
    };
    format!("{} {}", s, v)
}

/// `meta H`: the same text through every string setter of the builder, then build
/// several files in one package: the directory / base-name bookkeeping of `build()` over a whole layout
fn layout(dests: Vec<String>) -> String {
    match guarded(AssertUnwindSafe(move || -> Result<(), Error> {
        let mut b = builder().compression(CompressionType::None);
        for d in &dests {
            b = b.with_file(source_file(), FileOptions::new(d.clone()))?;
        }
        let pkg = b.build()?;
        let _ = roundtrip(&pkg);
        Ok(())
    })) {
        Ok(Ok(())) => "ok".into(),
        Ok(Err(e)) => err_class(&e).into(),
        Err(_) => "panic".into(),
    }
}

fn meta(s: String) -> String {
    let r = guarded(AssertUnwindSafe(|| -> Result<(), Error> {
        let pkg = PackageBuilder::new(&s, &s, &s, &s, &s)
            .compression(CompressionType::None)
            .release(s.clone())
            .url(s.clone())
            .vcs(s.clone())
            .description(s.clone())
            .vendor(s.clone())
            .packager(s.clone())
            .group(s.clone())
            .build_host(&s)
            .cookie(&s)
            .add_changelog_entry(&s, &s, 1u32)
            .with_file(source_file(), FileOptions::new("/usr/bin/x").user(s.clone()).group(s.clone()).symlink(s.clone()))?
            .build()?;
        let _ = roundtrip(&pkg);
        Ok(())
    }));
    match r {
        Ok(Ok(())) => "ok".into(),
        Ok(Err(e)) => err_class(&e).into(),
        Err(_) => "panic".into(),
    }
}

pub fn eval(op: &str, a: &[&str]) -> Option<String> {
    let text = |h: &str| String::from_utf8(unhx(h)).ok();
    match op {
        "dest" if a.len() == 1 => Some(dest(text(a[0])?)),
        "pcomps" if a.len() == 1 => Some(pcomps(Path::new(OsStr::from_bytes(&unhx(a[0]))))),
        "pparent" if a.len() == 1 => Some(opt_path(Path::new(OsStr::from_bytes(&unhx(a[0]))).parent())),
        "pfilename" if a.len() == 1 => {
            let b = unhx(a[0]);
            Some(match Path::new(OsStr::from_bytes(&b)).file_name() {
                None => "none".into(),
                Some(f) => format!("some {}", hx(f.as_bytes())),
            })
        }
        "pstrip" if a.len() == 1 => {
            let b = unhx(a[0]);
            Some(opt_path(Path::new(OsStr::from_bytes(&b)).strip_prefix(".").ok()))
        }
        "pjoin" if a.len() == 2 => {
            let (x, y) = (unhx(a[0]), unhx(a[1]));
            Some(hx(Path::new(OsStr::from_bytes(&x)).join(OsStr::from_bytes(&y)).as_os_str().as_bytes()))
        }
        // `levelnb`: the same request against rpm-rs built WITHOUT bzip2 support (only emitted by the nobz variant)
        "level" | "levelnb" if a.len() == 2 => level(a[0], a[1].parse().ok()?),
        "tsset" if a.len() == 4 => tsset(a[0], a[1], a[2].parse().ok()?, a[3].parse().ok()?),
        "capsset" if a.len() == 1 => Some(capsset(text(a[0])?)),
        "meta" if a.len() == 1 => Some(meta(text(a[0])?)),
        "layout" if a.len() == 1 => {
            let dests: Option<Vec<String>> = a[0].split(',').map(|h| text(h)).collect();
            Some(layout(dests?))
        }
        _ => None,
    }
}

fn all_strings(alpha: &[&str], maxlen: usize) -> Vec<String> {
    let mut out = vec![String::new()];
    let mut layer = vec![String::new()];
    for _ in 0..maxlen {
        let mut next = Vec::with_capacity(layer.len() * alpha.len());
        for s in &layer {
            for c in alpha {
                next.push(format!("{}{}", s, c));
            }
        }
        out.extend(next.iter().cloned());
        layer = next;
    }
    out
}

fn path_ops(ctx: &mut Ctx, b: &[u8]) {
    let h = hx(b);
    ctx.req(&format!("pcomps {}", h));
    ctx.req(&format!("pparent {}", h));
    ctx.req(&format!("pfilename {}", h));
    ctx.req(&format!("pstrip {}", h));
}

fn dest_ops(ctx: &mut Ctx, s: &str) {
    ctx.req(&format!("dest {}", hx(s.as_bytes())));
    path_ops(ctx, s.as_bytes());
}

/// rpm-rs without bzip2 support: every type x level is ok / err, never a panic; bzip2 is always refused
fn gen_nobz(ctx: &mut Ctx) {
    let mut k = 0u64;
    for ty in ["none", "gzip", "zstd", "xz", "bzip2"] {
        for l in [-1i64, 0, 1, 5, 9, 10, 19, 22, 23, 100, 2147483647, 4294967295] {
            k += 1;
            if k % ctx.shard.1 == ctx.shard.0 {
                ctx.req(&format!("levelnb {} {}", ty, l));
            }
        }
    }
}

pub fn gen(ctx: &mut Ctx) {
    if ctx.variant == "nobz" {
        return gen_nobz(ctx);
    }
    if ctx.shard.0 == 0 {
        // layouts: every non-empty subset (as a sequence, two orders) of a small tree in which files sit beside
        // sub-directories that sort before / after them, plus duplicates and odd spellings
        let tree = ["/a/z", "/a/m/x", "/a/m/n/y", "/a/b", "/a/zz/q", "/b", "/a/m.txt", "/a/m/x/deep", "./a/k", "//a//m//w"];
        for mask in 1u32..(1 << tree.len()) {
            if mask.count_ones() > 4 { continue; }
            let picked: Vec<&str> = (0..tree.len()).filter(|i| mask & (1 << i) != 0).map(|i| tree[i]).collect();
            let fwd: Vec<String> = picked.iter().map(|d| hx(d.as_bytes())).collect();
            ctx.req(&format!("layout {}", fwd.join(",")));
            if picked.len() > 1 {
                let rev: Vec<String> = picked.iter().rev().map(|d| hx(d.as_bytes())).collect();
                ctx.req(&format!("layout {}", rev.join(",")));
            }
        }
        ctx.req(&format!("layout {},{}", hx(b"/a/z"), hx(b"/a/z")));
        ctx.req(&format!("layout {},{},{}", hx(b"/etc/demo/hugo/aa.toml"), hx(b"/etc/demo/zazz.toml"), hx(b"/etc/demo/a")));
    }
    let (si, sn) = ctx.shard;
    let mut idx: u64 = 0;
    let mine = |idx: &mut u64| {
        *idx += 1;
        *idx % sn == si
    };

    // 1. every destination over {'/', '.', 'a'} up to length 8 / 11: the builder and the path functions
    for s in all_strings(&["/", ".", "a"], ctx.q(8, 11)) {
        if mine(&mut idx) {
            dest_ops(ctx, &s);
        }
    }
    // 2. token strings with "..", a two-letter name and a dotted name
    for s in all_strings(&["/", ".", "..", "a", "b.c"], ctx.q(5, 7)) {
        if mine(&mut idx) {
            dest_ops(ctx, &s);
        }
    }
    // 3. hand-picked: the former panic witnesses, long / deep / multi-byte / NUL / blank destinations
    let long_name = "n".repeat(5000);
    let deep = "/d".repeat(2000);
    let mut special: Vec<String> = [
        "./", "/usr/..", "./..", "/..", "./a/..", "", ".", "..", "/", "//", "/.", "/./", ".//", "./.", "././", "./a", "/a", "//a", "./a/b",
        "/usr/bin/x", "./usr/bin/x", "/usr//bin///x", "/a/./b/", "/a/b/../c", "./a/b/../c", "/a/..b", "/a/b..", "/...", "./...", "/a/.../b",
        "/é", "/ü/日本/語", "./é/..", "/a b/c d", "/ ", "/a\u{0}b/c", "/a/b\u{0}", "/\u{0}", "./\u{0}/x", "/a\n/b", "/\u{7f}", "/a/\u{10ffff}",
        "usr/bin/x", "a", ".a", "..a", ".a/b", "~/.x", "\\a", "C:\\a", "/a\\b",
    ]
    .iter()
    .map(|s| s.to_string())
    .collect();
    special.push(format!("/{}", long_name));
    special.push(format!("./{}/{}", long_name, long_name));
    special.push(deep.clone());
    special.push(format!("{}/..", deep));
    special.push(format!(".{}/.", deep));
    special.push("/".repeat(3000));
    special.push(format!("/a{}", "/.".repeat(1500)));
    for s in &special {
        if mine(&mut idx) {
            dest_ops(ctx, s);
        }
    }
    // path functions on bytes that are not UTF-8, and `join` as get_file_paths() uses it
    let raw: [&[u8]; 8] = [b"/\xff", b"./\xff/\x80", b"\xff/a", b"/a/\xc3", b".\xff", b"./a\xff/..", b"/\xed\xa0\x80/x", b"\xc3\xa9/"];
    for b in raw {
        if mine(&mut idx) {
            path_ops(ctx, b);
        }
    }
    let joins = [
        ("/usr/bin/", "x"), ("/usr/bin", "x"), ("/usr/bin/", "/x"), ("", "x"), ("/", "x"), ("//", "x"), ("/a/", ""), ("/a", "../b"),
        ("/a/", "."), ("/a//", "b"), ("a", "b"), ("", ""), ("/", ""), ("/a", "//b"), ("/é/", "ü"), ("/a/.", "b"),
    ];
    for (x, y) in joins {
        if mine(&mut idx) {
            ctx.req(&format!("pjoin {} {}", hx(x.as_bytes()), hx(y.as_bytes())));
        }
    }
    // 4. seeded longer destinations
    const TOK: &[&str] = &["/", "/", "//", ".", "..", "./", "/.", "a", "b.c", "é", " ", "..a", "...", "usr"];
    let n = ctx.q(20_000u64, 300_000) / sn;
    for _ in 0..n {
        let k = 1 + ctx.rng.below(12) as usize;
        let mut s = String::from(*ctx.rng.pick(&["/", "/", "./", "./", "", "."]));
        for _ in 0..k {
            s.push_str(*ctx.rng.pick(TOK));
            if ctx.rng.chance(1, 100) {
                s.push('\u{0}');
            }
        }
        dest_ops(ctx, &s);
    }

    // 5. every compression type, levels across and beyond its range (each build in a child process)
    let mut levels: Vec<i64> = vec![-1];
    levels.extend(0..=25);
    levels.extend_from_slice(&[100, i32::MAX as i64, u32::MAX as i64]);
    for ty in ["none", "gzip", "zstd", "xz", "bzip2"] {
        let mut ls = if ty == "none" { vec![0] } else { levels.clone() };
        if ty == "zstd" {
            ls.extend_from_slice(&[-131072, -131073, i32::MIN as i64, -7, -22, -100_000, 2147483648, -2147483649]);
        }
        if ctx.thorough && ty != "none" {
            ls.extend_from_slice(&[26, 31, 32, 33, 63, 64, 65, 255, 256, 65535, 65536, 1 << 24, (1i64 << 31), u32::MAX as i64 - 1, 1i64 << 32]);
        }
        for l in ls {
            if mine(&mut idx) {
                ctx.req(&format!("level {} {}", ty, l));
            }
        }
    }

    // 6. timestamp setters at the boundaries, every argument type
    const TWO32: i64 = 1 << 32;
    let min = DateTime::<Utc>::MIN_UTC.timestamp();
    let max = DateTime::<Utc>::MAX_UTC.timestamp();
    let mut instants: Vec<(i64, u32)> = vec![
        (-1, 999_999_999), (-1, 0), (-1, 1), (0, 0), (0, 1), (0, 999_999_999), (1, 0), (1_600_000_000, 0), (1_600_000_000, 500_000_000),
        ((1 << 31) - 1, 0), (1 << 31, 0), (TWO32 - 1, 0), (TWO32 - 1, 999_999_999), (TWO32, 0), (TWO32, 1), (TWO32 + 1, 0),
        (1 << 33, 0), (1 << 40, 0), (-(1 << 40), 0), (-(1 << 31), 0), (-TWO32, 0), (min, 0), (min + 1, 0), (min - 1, 0), (max, 0), (max + 1, 0),
        (1 << 53, 0), (-(1 << 53), 0), (i64::MAX, 0), (i64::MIN, 0), (i64::MAX, 999_999_999), (i64::MIN + 1, 1),
    ];
    for d in 2..=ctx.q(40i64, 2000) {
        instants.extend_from_slice(&[(-d, 0), (d, 7), (TWO32 - d, 3), (TWO32 + d, 0)]);
    }
    for _ in 0..ctx.q(300, 5000) {
        let c = *ctx.rng.pick(&[0i64, 0, TWO32, TWO32, 1 << 31]);
        let k = ctx.rng.below(41) as u32;
        let d = ctx.rng.range(-(1i64 << k), 1i64 << k);
        instants.push((c + d, if ctx.rng.chance(1, 2) { 0 } else { ctx.rng.below(1_000_000_000) as u32 }));
    }
    let fixed_instants = 32usize;
    for (i, (s, n)) in instants.into_iter().enumerate() {
        // `sg` (sign_with_timestamp on a built package) is the same conversion + unwrap: the hand-picked instants only
        for setter in if i < fixed_instants || i % 16 == 0 { &["sd", "cl", "sg"][..] } else { &["sd", "cl"][..] } {
            for kind in ["u32", "sys", "utc", "fix"] {
                if kind == "u32" && n != 0 {
                    continue;
                }
                if mine(&mut idx) {
                    ctx.req(&format!("tsset {} {} {} {}", setter, kind, s, n));
                }
            }
        }
    }

    // 7. capability text over the C19 alphabet
    let caps_tok = ["cap_chown", "cap_kill", "all", "cap_bogus", ",", "=", "+", "-", "e", "i", "p", "x", " "];
    for s in all_strings(&caps_tok, ctx.q(3, 4)) {
        if mine(&mut idx) {
            ctx.req(&format!("capsset {}", hx(s.as_bytes())));
        }
    }
    for s in ["cap_net_admin,cap_net_raw+ep", "cap_chown=p cap_kill+i", "=e +p", "=", "all=eip", "ALL=eip", "Cap_Chown+e", "cap_chown+é", "é", "\u{0}",
              "cap_chown+ep\u{0}", "cap_chown +ep", "\tcap_chown+e\n", "cap_checkpoint_restore-e", "cap_chown,cap_bogus+e", "cap_chown,,cap_kill+e", "cap_chown+e=p-i"] {
        if mine(&mut idx) {
            ctx.req(&format!("capsset {}", hx(s.as_bytes())));
        }
    }

    // 8. metadata strings
    let big = "x".repeat(70_000);
    for s in ["", "n", "a b", "é", "日本語", "a\u{0}b", "\u{0}", "-", "a-b-c", "1:2-3", "/", "..", "%{name}", "\n", "\u{10ffff}",
              &"é".repeat(33), &"n".repeat(65), &"n".repeat(66), &"é".repeat(40), big.as_str()] {
        if mine(&mut idx) {
            ctx.req(&format!("meta {}", hx(s.as_bytes())));
        }
    }
}
