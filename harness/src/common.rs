//! Shared plumbing: deterministic PRNG, case emission, hex helpers.
use std::io::Write;

pub struct Rng(pub u64);
impl Rng {
    pub fn new(seed: u64) -> Self {
        Rng(seed.wrapping_mul(0x9E3779B97F4A7C15) ^ 0xD1B54A32D192ED03)
    }
    pub fn next(&mut self) -> u64 {
        // splitmix64
        self.0 = self.0.wrapping_add(0x9E3779B97F4A7C15);
        let mut z = self.0;
        z = (z ^ (z >> 30)).wrapping_mul(0xBF58476D1CE4E5B9);
        z = (z ^ (z >> 27)).wrapping_mul(0x94D049BB133111EB);
        z ^ (z >> 31)
    }
    pub fn below(&mut self, n: u64) -> u64 {
        if n == 0 { 0 } else { self.next() % n }
    }
    pub fn range(&mut self, lo: i64, hi: i64) -> i64 {
        lo + self.below((hi - lo + 1) as u64) as i64
    }
    pub fn chance(&mut self, num: u64, den: u64) -> bool {
        self.below(den) < num
    }
    pub fn pick<'a, T>(&mut self, xs: &'a [T]) -> &'a T {
        &xs[self.below(xs.len() as u64) as usize]
    }
    pub fn bytes(&mut self, n: usize) -> Vec<u8> {
        (0..n).map(|_| self.next() as u8).collect()
    }
}

pub struct Ctx {
    pub seed: u64,
    pub thorough: bool,
    pub rng: Rng,
    pub out: Box<dyn Write>,
    pub shard: (u64, u64),
    pub n: u64,
    pub args: Vec<String>,
    /// "" = the normal run; "nobz" = this binary was built with `--no-default-features`, i.e. against rpm-rs with
    /// ITS default cargo features (bzip2 support not compiled in): generators emit their feature-sensitive subset
    pub variant: String,
}

impl Ctx {
    /// one protocol line: `<request> => <impl observation>`
    pub fn emit(&mut self, req: &str, obs: &str) {
        self.n += 1;
        writeln!(self.out, "{} => {}", req, obs).unwrap();
    }
    /// evaluate the request against the real code (same path `--replay` uses) and emit it
    pub fn req(&mut self, req: &str) {
        let obs = crate::eval_request(req);
        self.emit(req, &obs);
    }
    pub fn q<T>(&self, quick: T, thorough: T) -> T {
        if self.thorough { thorough } else { quick }
    }
}

/// hex of bytes, "-" for empty (the wire format of the driver)
pub fn hx(b: &[u8]) -> String {
    if b.is_empty() { "-".to_string() } else { hex::encode(b) }
}
pub fn unhx(s: &str) -> Vec<u8> {
    if s == "-" { vec![] } else { hex::decode(s).expect("hex") }
}

/// run `f`, mapping a panic to Err(message)
pub fn guarded<T>(f: impl FnOnce() -> T + std::panic::UnwindSafe) -> Result<T, String> {
    std::panic::catch_unwind(f).map_err(|e| {
        if let Some(s) = e.downcast_ref::<&str>() {
            s.to_string()
        } else if let Some(s) = e.downcast_ref::<String>() {
            s.clone()
        } else {
            "panic".to_string()
        }
    })
}

pub fn ord_str(o: std::cmp::Ordering) -> &'static str {
    match o {
        std::cmp::Ordering::Less => "lt",
        std::cmp::Ordering::Equal => "eq",
        std::cmp::Ordering::Greater => "gt",
    }
}

/// FNV-1a 64: cheap identity of byte strings on the wire (not a security claim)
pub fn fnv(b: &[u8]) -> u64 {
    let mut h: u64 = 0xcbf29ce484222325;
    for x in b {
        h ^= *x as u64;
        h = h.wrapping_mul(0x100000001b3);
    }
    h
}

/// large blobs travel by file reference `@path` (hex inside the file would double the size: raw bytes)
pub fn blob_arg(ctx_dir: &str, name: &str, data: &[u8]) -> String {
    if data.len() <= 4096 {
        hx(data)
    } else {
        let p = format!("{}/{}.bin", ctx_dir, name);
        std::fs::write(&p, data).expect("write blob");
        format!("@{}", p)
    }
}

pub fn arg_bytes(a: &str) -> Vec<u8> {
    if let Some(p) = a.strip_prefix('@') {
        std::fs::read(p).expect("read blob")
    } else {
        unhx(a)
    }
}
