//! Structure-aware generator of headers / packages as raw bytes (used by C01, C04, C05, C16 …).
use crate::common::*;

#[derive(Clone, Debug)]
pub struct GEntry {
    pub tag: u32,
    pub ty: u32,
    pub off: i32,
    pub cnt: u32,
}

#[derive(Clone, Debug)]
pub struct GHeader {
    pub magic: [u8; 3],
    pub version: u8,
    pub reserved: [u8; 4],
    pub entries: Vec<GEntry>,
    pub store: Vec<u8>,
    /// override the counts written into the intro (None = consistent)
    pub n_override: Option<u32>,
    pub dl_override: Option<u32>,
}

impl GHeader {
    pub fn new() -> Self {
        GHeader { magic: [0x8e, 0xad, 0xe8], version: 1, reserved: [0; 4], entries: vec![], store: vec![], n_override: None, dl_override: None }
    }
    pub fn bytes(&self) -> Vec<u8> {
        let mut v = Vec::new();
        v.extend_from_slice(&self.magic);
        v.push(self.version);
        v.extend_from_slice(&self.reserved);
        v.extend_from_slice(&self.n_override.unwrap_or(self.entries.len() as u32).to_be_bytes());
        v.extend_from_slice(&self.dl_override.unwrap_or(self.store.len() as u32).to_be_bytes());
        for e in &self.entries {
            v.extend_from_slice(&e.tag.to_be_bytes());
            v.extend_from_slice(&e.ty.to_be_bytes());
            v.extend_from_slice(&e.off.to_be_bytes());
            v.extend_from_slice(&e.cnt.to_be_bytes());
        }
        v.extend_from_slice(&self.store);
        v
    }
    /// bytes followed by the signature-header padding
    pub fn bytes_padded(&self, pad_byte: u8) -> Vec<u8> {
        let mut v = self.bytes();
        let dl = self.dl_override.unwrap_or(self.store.len() as u32);
        let pad = (8 - (dl % 8)) % 8;
        v.extend(std::iter::repeat(pad_byte).take(pad as usize));
        v
    }
    /// append data of the given type, properly aligned; returns the entry
    pub fn push(&mut self, tag: u32, ty: u32, data: &TData) -> usize {
        let align = match ty { 3 => 2, 4 => 4, 5 => 8, _ => 1 };
        while self.store.len() % align != 0 {
            self.store.push(0);
        }
        let off = self.store.len() as i32;
        let cnt = match data {
            TData::Null => 0,
            TData::Bytes(b) => b.len() as u32,
            TData::U16(v) => v.len() as u32,
            TData::U32(v) => v.len() as u32,
            TData::U64(v) => v.len() as u32,
            TData::Str(_) => 1,
            TData::Strs(v) => v.len() as u32,
        };
        match data {
            TData::Null => {}
            TData::Bytes(b) => self.store.extend_from_slice(b),
            TData::U16(v) => v.iter().for_each(|x| self.store.extend_from_slice(&x.to_be_bytes())),
            TData::U32(v) => v.iter().for_each(|x| self.store.extend_from_slice(&x.to_be_bytes())),
            TData::U64(v) => v.iter().for_each(|x| self.store.extend_from_slice(&x.to_be_bytes())),
            TData::Str(s) => { self.store.extend_from_slice(s); self.store.push(0); }
            TData::Strs(v) => v.iter().for_each(|s| { self.store.extend_from_slice(s); self.store.push(0); }),
        }
        self.entries.push(GEntry { tag, ty, off, cnt });
        self.entries.len() - 1
    }
}

#[derive(Clone, Debug)]
pub enum TData {
    Null,
    Bytes(Vec<u8>),
    U16(Vec<u16>),
    U32(Vec<u32>),
    U64(Vec<u64>),
    Str(Vec<u8>),
    Strs(Vec<Vec<u8>>),
}

pub fn rand_cstr(rng: &mut Rng) -> Vec<u8> {
    let n = rng.below(7) as usize;
    match rng.below(6) {
        0 => (0..n).map(|_| 1 + (rng.below(255)) as u8).collect(),         // arbitrary non-NUL, often invalid UTF-8
        1 => "é√x".as_bytes().to_vec(),
        2 => vec![],
        3 => vec![0xe2, 0x82],                                                // truncated multi-byte sequence
        _ => (0..n).map(|_| b"abcxyz019.-_/ "[rng.below(14) as usize]).collect(),
    }
}

pub fn rand_data(rng: &mut Rng, ty: u32) -> TData {
    let n = rng.below(5) as usize;
    match ty {
        0 => TData::Null,
        1 | 2 | 7 => TData::Bytes(rng.bytes(n)),
        3 => TData::U16((0..n).map(|_| rng.next() as u16).collect()),
        4 => TData::U32((0..n).map(|_| rng.next() as u32).collect()),
        5 => TData::U64((0..n).map(|_| rng.next()).collect()),
        6 => TData::Str(rand_cstr(rng)),
        _ => TData::Strs((0..n).map(|_| rand_cstr(rng)).collect()),
    }
}

pub fn rand_tag(rng: &mut Rng) -> u32 {
    match rng.below(6) {
        0 => rng.next() as u32,
        1 => *rng.pick(&[62u32, 63, 100, 256, 267, 268, 269, 273, 278, 1000, 1002, 1004, 1005, 1007]),
        _ => 1000 + rng.below(60) as u32,
    }
}

/// a structurally parseable header: any types, any tags (unknown, duplicated, unsorted)
pub fn gen_header_wf(rng: &mut Rng) -> GHeader {
    let mut h = GHeader::new();
    let n = rng.below(13);
    for _ in 0..n {
        let ty = rng.below(10) as u32;
        let d = rand_data(rng, ty);
        let tag = rand_tag(rng);
        h.push(tag, ty, &d);
    }
    if rng.chance(1, 2) {
        // entries under tags the library itself reads, in their natural type and with SMALL values (sizes and counts
        // comparable to the real lengths of these tiny packages): code that keys on a particular tag is exercised
        // even where the property says the tag must not matter
        const MEANINGFUL: &[(u32, u32)] = &[
            (1000, 4), (270, 5), (1007, 4), (271, 5), (1004, 7), (269, 6), (273, 6), (268, 7), (267, 7), (1002, 7), (1005, 7),
            (278, 8), (1008, 7), (1125, 6), (1126, 6), (5092, 8), (5093, 4), (5097, 8), (1028, 4), (5008, 5), (1009, 4), (5009, 5),
            (1030, 3), (1117, 8), (1116, 4), (1118, 8), (1106, 4), (100, 8),
        ];
        for _ in 0..(1 + rng.below(3)) {
            let (tag, ty) = *rng.pick(MEANINGFUL);
            let cnt = 1 + rng.below(2) as usize;
            let d = match ty {
                3 => TData::U16((0..cnt).map(|_| rng.below(300) as u16).collect()),
                4 => TData::U32((0..cnt).map(|_| rng.below(300) as u32).collect()),
                5 => TData::U64((0..cnt).map(|_| rng.below(300)).collect()),
                6 => TData::Str(rng.pick(&["gzip", "none", "9", "0123abcd", ""]).as_bytes().to_vec()),
                7 => { let k = 1 + rng.below(20) as usize; TData::Bytes(rng.bytes(k)) }
                _ => TData::Strs((0..cnt).map(|_| rng.pick(&["a", "/", "0123", ""]).as_bytes().to_vec()).collect()),
            };
            h.push(tag, ty, &d);
        }
    }
    if rng.chance(1, 3) {
        // trailing slack in the store / odd total sizes (all residues mod 8)
        let k = rng.below(9) as usize;
        h.store.extend(rng.bytes(k));
    }
    if rng.chance(1, 4) {
        // shuffle index order (offsets need not be ascending)
        let len = h.entries.len();
        for i in 0..len {
            let j = rng.below(len as u64) as usize;
            h.entries.swap(i, j);
        }
    }
    if rng.chance(1, 3) {
        h.reserved = [rng.next() as u8, rng.next() as u8, rng.next() as u8, rng.next() as u8];
    }
    h
}

pub const I32_EDGES: [i32; 8] = [-1, 0, 1, i32::MIN, i32::MAX, -16, 0x7fff_fff0, 16];

/// damage a header in one of the ways the C04 quantifier lists
pub fn damage(rng: &mut Rng, h: &mut GHeader) {
    let len = h.store.len() as i64;
    match rng.below(12) {
        0 => h.magic[rng.below(3) as usize] = rng.next() as u8,
        1 => h.version = *rng.pick(&[0u8, 2, 255, 1]),
        2 => h.n_override = Some(*rng.pick(&[0u32, 1, h.entries.len() as u32 + 1, 0x0fff_ffff, 0x1000_0000, u32::MAX])),
        3 => h.dl_override = Some(*rng.pick(&[0u32, 1, (len as u32).wrapping_add(1), (len as u32).wrapping_sub(1), 0x7fff_ffff, u32::MAX, u32::MAX - 15])),
        _ => {
            if h.entries.is_empty() {
                h.entries.push(GEntry { tag: 1000, ty: 6, off: 0, cnt: 1 });
            }
            let i = rng.below(h.entries.len() as u64) as usize;
            let e = &mut h.entries[i];
            match rng.below(6) {
                5 => {
                    // a second (third, ...) index entry over the SAME store bytes: parse_header charges every entry's data
                    // against the length of the data section, so this is refused (class overlap) unless the store has that
                    // much slack or the data is empty
                    let mut dup = e.clone();
                    for _ in 0..(1 + rng.below(3)) {
                        dup.tag = dup.tag.wrapping_add(1);
                        h.entries.push(dup.clone());
                    }
                }
                0 => e.ty = *rng.pick(&[0u32, 1, 2, 3, 4, 5, 6, 7, 8, 9, 10, 11, u32::MAX]),
                1 => e.off = *rng.pick(&[-1i32, 0, (len - 1) as i32, len as i32, (len + 1) as i32, i32::MIN, i32::MAX]),
                2 => e.cnt = *rng.pick(&[0u32, 1, len as u32, (len + 1) as u32, 0x8000_0000, u32::MAX]),
                3 => {
                    // cut the store right after this entry's offset: unterminated strings / short arrays
                    let cut = (e.off.max(0) as usize + rng.below(3) as usize).min(h.store.len());
                    h.store.truncate(cut);
                    // replace NULs in the tail so strings run to the end
                    if rng.chance(1, 2) {
                        for b in h.store.iter_mut().rev().take(4) {
                            if *b == 0 { *b = b'x'; }
                        }
                    }
                }
                _ => {
                    e.off = *rng.pick(&I32_EDGES);
                    e.cnt = rng.next() as u32;
                }
            }
        }
    }
}

pub fn gen_lead(rng: &mut Rng, arbitrary: bool) -> Vec<u8> {
    let mut v = vec![0xed, 0xab, 0xee, 0xdb];
    if arbitrary && rng.chance(1, 2) {
        v.extend(rng.bytes(92));
    } else if arbitrary {
        // plausible leads: every numeric field from a small set that contains the values tools really write AND their
        // neighbours (signature type 0 = "no signature section" in rpm's lead, 5 = header-style signature; seed C16-7)
        v.push(*rng.pick(&[3u8, 4, 2, 0]));
        v.push(*rng.pick(&[0u8, 1]));
        v.extend_from_slice(&(*rng.pick(&[0u16, 1, 2, 0xffff])).to_be_bytes());
        v.extend_from_slice(&(*rng.pick(&[0u16, 1, 12, 255])).to_be_bytes());
        let mut name = [0u8; 66];
        let n = *rng.pick(&[0usize, 4, 65, 66]);
        for b in name.iter_mut().take(n) { *b = b'a' + (rng.below(26) as u8); }
        v.extend_from_slice(&name);
        v.extend_from_slice(&(*rng.pick(&[1u16, 0, 255])).to_be_bytes());
        v.extend_from_slice(&(*rng.pick(&[5u16, 0, 1, 6])).to_be_bytes());
        if rng.chance(1, 2) { v.extend_from_slice(&[0; 16]); } else { v.extend(rng.bytes(16)); }
    } else {
        v.extend_from_slice(&[3, 0, 0, 0, 0, 1]);
        let mut name = [0u8; 66];
        name[..4].copy_from_slice(b"test");
        v.extend_from_slice(&name);
        v.extend_from_slice(&[0, 1, 0, 5]);
        v.extend_from_slice(&[0; 16]);
    }
    v
}

/// lead ++ signature header (padded) ++ main header ++ payload
pub fn assemble(lead: &[u8], sig: &GHeader, pad_byte: u8, hdr: &GHeader, payload: &[u8]) -> Vec<u8> {
    let mut v = lead.to_vec();
    v.extend(sig.bytes_padded(pad_byte));
    v.extend(hdr.bytes());
    v.extend_from_slice(payload);
    v
}

/// a structurally parseable package (not semantically meaningful)
pub fn gen_package_wf(rng: &mut Rng) -> Vec<u8> {
    let arb = rng.chance(1, 2);
    let lead = gen_lead(rng, arb);
    let sig = gen_header_wf(rng);
    let hdr = gen_header_wf(rng);
    let pad = if rng.chance(1, 3) { rng.next() as u8 } else { 0 };
    let n = rng.below(40) as usize;
    let payload = rng.bytes(n);
    assemble(&lead, &sig, pad, &hdr, &payload)
}

pub fn asset_paths() -> Vec<std::path::PathBuf> {
    let mut v: Vec<_> = std::fs::read_dir("/repo/test_assets")
        .map(|d| d.filter_map(|e| e.ok()).map(|e| e.path()).filter(|p| p.extension().map(|x| x == "rpm").unwrap_or(false)).collect())
        .unwrap_or_default();
    v.sort();
    v
}
