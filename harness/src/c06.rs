//! C06: everything given to the builder is read back unchanged. Generates builder configurations for
//! the shared `build` op (see bld.rs for the token format).
use crate::common::*;

const STRS: &[&str] = &["", "x", "hello world", "multi\nline\ntext", "tab\there", "ünï©ödé ✓", "a-b_c.d", "   ", "q\"uote'", "0"];
const NAMES: &[&str] = &["pkg", "foo-bar", "x", "python3.9", "ünï"];

pub fn pick_str(rng: &mut Rng) -> String {
    rng.pick(STRS).to_string()
}

pub fn gen_cfg(rng: &mut Rng, allow_sizes: &[usize]) -> String {
    let mut t: Vec<String> = Vec::new();
    fn h(s: &str) -> String { hx(s.as_bytes()) }
    t.push(format!("n={}", h(*rng.pick(NAMES))));
    t.push(format!("v={}", h(*rng.pick(&["1.0", "0", "2.3.4~rc1", "1"]))));
    t.push(format!("l={}", h(*rng.pick(&["MIT", "GPL-2.0-or-later", ""]))));
    t.push(format!("a={}", h(*rng.pick(&["noarch", "x86_64", "aarch64"]))));
    t.push(format!("s={}", h(&pick_str(rng))));
    t.push(format!("now={}", 1_700_000_000u32 + rng.below(1000) as u32));
    if rng.chance(1, 2) { t.push(format!("e={}", rng.pick(&[0u32, 1, 7, u32::MAX]))); }
    if rng.chance(1, 2) { t.push(format!("r={}", h(*rng.pick(&["1", "2.fc38", "0.1.git", ""])))); }
    for k in ["d", "ve", "pk", "g", "u", "vc", "ck", "bh"] {
        if rng.chance(2, 5) { t.push(format!("{}={}", k, h(&pick_str(rng)))); }
    }
    let sd = if rng.chance(1, 2) { Some(*rng.pick(&[0u32, 1, 1_500_000_000, 1_600_000_000, 1_699_999_999, 1_800_000_000, u32::MAX])) } else { None };
    if let Some(sd) = sd { t.push(format!("sd={}", sd)); if rng.chance(1, 2) { t.push("sdlast".to_string()); } }
    let comp = match rng.below(8) {
        0 => "none".to_string(),
        1 => format!("gzip:{}", rng.below(10)),
        2 => format!("zstd:{}", rng.pick(&[-5i32, 1, 3, 19, 22])),
        3 => format!("xz:{}", rng.below(10)),
        4 => format!("bzip2:{}", 1 + rng.below(9)),
        // `compression(CompressionType::X)`: the level is the library's default for the type
        5 => format!("{}:d", rng.pick(&["none", "gzip", "zstd", "xz", "bzip2"])),
        // no `compression(..)` call at all: `CompressionWithLevel::default()`
        6 => String::new(),
        _ => "gzip:9".to_string(),
    };
    if !comp.is_empty() { t.push(format!("c={}", comp)); }
    // files
    let nfiles = rng.below(7);
    let dirs = ["/", "/usr/bin/", "/etc/", "/opt/a/b/c/", "/ü/", "/usr/share/doc/pkg/"];
    let users = ["root", "root", "hugo", "www-data", "zed", "amy"];
    for i in 0..nfiles {
        let base = format!("{}{}", rng.pick(&["f", "file.txt", "LICENSE", "ü", "a.b-c"]), i);
        let plain = format!("{}{}", rng.pick(&dirs), base);
        let dest = match rng.below(8) {
            0 => format!(".{}", plain),                 // "./"-style
            1 => plain.replacen('/', "//", 1),          // doubled separator
            _ => plain,
        };
        let mode = match rng.below(8) {
            // inherited: the source file carries the permission bits, set-uid / set-gid / sticky included
            0 => format!("i{}", rng.pick(&[0o644u32, 0o755, 0o600, 0o4755, 0o2755, 0o1777, 0o7777, 0])),
            1 => format!("{}", 0o100000 | rng.pick(&[0o644i32, 0o755, 0o7777, 0])),
            2 => format!("{}", 0o040755),
            3 => format!("{}", 0o120777),
            // `mode(i32)` outside 16 bits (→ FileMode::Invalid): the header word and the cpio c_mode are its low 16 bits
            4 => format!("{}", rng.pick(&[0o271664i32, 0x7fff_ffff, -1, -32769, 65536 + 0o100644, -32768, 65535, i32::MIN, 65536])),
            // the mode() call before / after the other setters, and through From<u16>
            5 => format!("{}{}", rng.pick(&["f", "l"]), 0o100000 | rng.pick(&[0o644i32, 0o750, 0o4711])),
            6 => format!("u{}", rng.pick(&[0o100644u32, 0o040700, 0o120777, 0o010644, 0])),
            _ => format!("{}", 0o100644),
        };
        let link = if mode == format!("{}", 0o120777) { "/usr/bin/target" } else { "" };
        let flags = *rng.pick(&["0", "0", "0", "config", "doc", "config_noreplace", "ghost", "license", "readme", "doc+config", "license+doc",
                                "config_noreplace+ghost", "readme+doc+config", "17", "130"]);
        let caps = if rng.chance(1, 5) { h(*rng.pick(&["cap_chown=p", "cap_sys_admin,cap_sys_ptrace=pe", "=e"])) } else { "~".to_string() };
        let mtime = *rng.pick(&[0u32, 1_400_000_000, 1_599_999_999, 1_600_000_000, 1_600_000_001, 1_750_000_000]);
        let extras = if rng.chance(1, 4) { format!(":ns={}", rng.pick(&[1u32, 500_000_000, 999_999_999])) } else { String::new() };
        let size = *rng.pick(allow_sizes);
        let vf = if rng.chance(1, 6) { format!("{}", rng.pick(&[0u32, 1, 0xffff_ffff, 96])) } else { "~".to_string() };
        t.push(format!(
            "f={}:{}:{}:{}:{}:{}:{}:{}:{}:{}:{}{}",
            h(&dest), mode, h(*rng.pick(&users)), h(*rng.pick(&users)), flags, caps, h(link), mtime, rng.below(1000), size, vf, extras
        ));
    }
    // dependencies of all eight kinds
    for kind in ["prov", "req", "conf", "obs", "rec", "sug", "enh", "sup"] {
        for _ in 0..rng.below(3) {
            t.push(format!("dp={}:{}:{}:{}", kind, h(*rng.pick(&["wget", "libfoo.so.1()(64bit)", "a b", "ü", "x"])), rng.pick(&[0u32, 8, 10, 12, 2, 4, 16777224, 1280]), h(*rng.pick(&["", "1.0", "2:3.4-5"]))));
        }
    }
    for kind in ["prein", "postin", "preun", "postun", "pretrans", "posttrans", "preuntrans", "postuntrans", "verify"] {
        if rng.chance(1, 4) {
            let flags = if rng.chance(1, 2) { format!("{}", rng.pick(&[0u32, 1, 2, 4, 7])) } else { "~".to_string() };
            let prog = match rng.below(4) { 0 => "~".to_string(), 1 => "-".to_string(), 2 => h("/bin/sh"), _ => format!("{},{}", h("/usr/bin/lua"), h("-x")) };
            t.push(format!("sc={}:{}:{}:{}", kind, h(&pick_str(rng)), flags, prog));
        }
    }
    for _ in 0..rng.below(4) {
        t.push(format!("cl={}:{}:{}", h(*rng.pick(&["me <me@x> - 1.0-1", "you", ""])), h(&pick_str(rng)), rng.pick(&[0u32, 850_984_797, 1_681_411_811, u32::MAX])));
    }
    t.join(" ")
}

/// every public constructor of `rpm::Dependency`, by its Rust name (the scraped table `Gen.depCtorNames` must list the same)
const CTORS: &[&str] = &[
    "any", "eq", "less", "less_eq", "greater", "greater_eq", "rpmlib", "config", "user", "group", "script_pre", "script_post",
    "script_preun", "script_postun",
];
const KINDS: &[&str] = &["prov", "req", "conf", "obs", "rec", "sug", "enh", "sup"];

fn make_dep(ctor: &str, name: &str, version: &str) -> Option<rpm::Dependency> {
    use rpm::Dependency as D;
    Some(match ctor {
        "any" => D::any(name),
        "eq" => D::eq(name, version),
        "less" => D::less(name, version),
        "less_eq" => D::less_eq(name, version),
        "greater" => D::greater(name, version),
        "greater_eq" => D::greater_eq(name, version),
        "rpmlib" => D::rpmlib(name, version),
        "config" => D::config(name, version),
        "user" => D::user(name),
        "group" => D::group(name),
        "script_pre" => D::script_pre(name),
        "script_post" => D::script_post(name),
        "script_preun" => D::script_preun(name),
        "script_postun" => D::script_postun(name),
        _ => return None,
    })
}

fn triple(d: &rpm::Dependency) -> String {
    format!("{},{},{}", hx(d.name.as_bytes()), d.flags.bits(), hx(d.version.as_bytes()))
}

/// `dep CTOR KIND NAME VERSION`: construct, hand to the builder under KIND, build, write, parse, read back the first item
fn dep_op(ctor: &str, kind: &str, name: &str, version: &str) -> String {
    let d = match make_dep(ctor, name, version) { Some(d) => d, None => return "unknown-ctor".into() };
    let made = triple(&d);
    let b = rpm::PackageBuilder::new("p", "1.0", "MIT", "noarch", "s").compression(rpm::CompressionType::None).source_date(1_600_000_000u32);
    let b = match kind {
        "prov" => b.provides(d), "req" => b.requires(d), "conf" => b.conflicts(d), "obs" => b.obsoletes(d),
        "rec" => b.recommends(d), "sug" => b.suggests(d), "enh" => b.enhances(d), "sup" => b.supplements(d),
        _ => return "bad-kind".into(),
    };
    let back = (|| -> Result<String, rpm::Error> {
        let p = b.build()?;
        let mut w = Vec::new();
        p.write(&mut w)?;
        let m = rpm::PackageMetadata::parse(&mut &w[..])?;
        let l = match kind {
            "prov" => m.get_provides()?, "req" => m.get_requires()?, "conf" => m.get_conflicts()?, "obs" => m.get_obsoletes()?,
            "rec" => m.get_recommends()?, "sug" => m.get_suggests()?, "enh" => m.get_enhances()?, _ => m.get_supplements()?,
        };
        Ok(l.first().map(triple).unwrap_or_else(|| "missing".into()))
    })()
    .unwrap_or_else(|_| "err".into());
    format!("ctor={} back={}", made, back)
}

pub fn eval(op: &str, a: &[&str]) -> Option<String> {
    match op {
        "dep" => {
            let name = String::from_utf8(unhx(a[2])).ok()?;
            let version = String::from_utf8(unhx(a[3])).ok()?;
            Some(dep_op(a[0], a[1], &name, &version))
        }
        "depctors" => Some(CTORS.join(",")),
        _ => None,
    }
}

/// `with_file` beyond the well-behaved source: file times outside what a `Timestamp` holds (an `Err`, nothing built), the
/// last / first representable seconds, a directory or a missing path as source, and the error of one file among good ones
fn gen_sources(ctx: &mut Ctx) {
    fn h(s: &str) -> String { hx(s.as_bytes()) }
    let head = format!("n={} v={} l={} a={} s={} now=1700000000", h("p"), h("1"), h("MIT"), h("noarch"), h("s"));
    let root = h("root");
    let good = format!("f={}:33188:{}:{}:0:~:-:1500000000:4:5:~", h("/opt/good"), root, root);
    let mut k = 0u64;
    for (mt, ns) in [(-1i64, 999_999_999u32), (-1, 0), (-2, 1), (-86_400, 0), (-2_147_483_648, 0), (0, 0), (0, 999_999_999), (1, 0),
                     (2_147_483_647, 5), (2_147_483_648, 0), (4_294_967_295, 0), (4_294_967_295, 999_999_999), (4_294_967_296, 0),
                     (4_294_967_296, 1), (4_294_967_297, 0), (10_000_000_000, 0), (15_032_385_535, 0)] {
        // (`i<perm>`: the permission word in DECIMAL, like every number of the token: 420 = 0o644, 2541 = 0o4755)
        for (mode, sd) in [("i420", ""), ("33261", " sd=1600000000"), ("i2541", " sd=0 sdlast")] {
            k += 1;
            if k % ctx.shard.1 != ctx.shard.0 { continue; }
            let f = format!("f={}:{}:{}:{}:doc:~:-:{}:{}:7:~:ns={}", h("/usr/share/x"), mode, root, root, mt, k, ns);
            ctx.req(&format!("build {}{} c=none {}", head, sd, f));
            if k % 3 == 0 { ctx.req(&format!("build {}{} c=gzip:d {} {}", head, sd, good, f)); }
        }
    }
    for kind in ["dir", "missing"] {
        for mode in ["i493", "33188", "f33188"] {
            k += 1;
            if k % ctx.shard.1 != ctx.shard.0 { continue; }
            let f = format!("f={}:{}:{}:{}:0:~:-:1500000000:{}:3:~:k={}", h("/opt/x"), mode, root, root, k, kind);
            ctx.req(&format!("build {} c=none {}", head, f));
            ctx.req(&format!("build {} {} {}", head, good, f));
        }
    }
    // every default: no compression() call, compression(CompressionType::X) for every X, alone and with files
    for c in ["", " c=none:d", " c=gzip:d", " c=zstd:d", " c=xz:d", " c=bzip2:d"] {
        k += 1;
        if k % ctx.shard.1 != ctx.shard.0 { continue; }
        ctx.req(&format!("build {}{}", head, c));
        ctx.req(&format!("build {}{} {}", head, c, good));
    }
    // bare FileOptions::new(dest): every default is read back
    for (i, mode) in ["i420", "i2541", "i0", "i4095", "i896", "i1023", "i512"].iter().enumerate() {
        k += 1;
        if k % ctx.shard.1 != ctx.shard.0 { continue; }
        ctx.req(&format!("build {} c=none f={}:{}:{}:{}:0:~:-:1234567890:{}:9:~", head, h("/bare"), mode, root, root, 2 * i));
    }
}

pub fn gen(ctx: &mut Ctx) {
    gen_sources(ctx);
    crate::c17::gen_wfile(ctx, "wfile6");
    let (_si, sn) = ctx.shard;
    if _si == 0 {
        // the public Dependency constructors: every constructor under every builder method, then every constructor over
        // names (empty, blanks, non-ASCII, parentheses) × versions with the method rotating
        ctx.req("depctors");
        for c in CTORS {
            for k in KINDS {
                ctx.req(&format!("dep {} {} {} {}", c, k, hx(b"wget"), hx(b"1.0")));
            }
        }
        let mut i = 0usize;
        for c in CTORS {
            for n in ["", "x", "libfoo.so.1()(64bit)", "a b", "ünï", "config(x)"] {
                for v in ["", "2:3.4-5", "1.0~rc1"] {
                    ctx.req(&format!("dep {} {} {} {}", c, KINDS[i % KINDS.len()], hx(n.as_bytes()), hx(v.as_bytes())));
                    i += 1;
                }
            }
        }
    }
    let n = ctx.q(300u64, 5_000) / sn;
    let sizes = [0usize, 1, 2, 3, 4, 5, 13, 100, 4096, 70_000];
    for _ in 0..n {
        let cfg = gen_cfg(&mut ctx.rng, &sizes);
        ctx.req(&format!("build {}", cfg));
    }
}
