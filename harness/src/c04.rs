//! C04: untrusted bytes never crash the reader. Every case runs in a forked child with a panic hook,
//! a counting allocator and RLIMIT_AS, with a logger at Debug level installed (some code only runs when logging is enabled).
//! The allocator MEASURES (largest single request, peak of the bytes alive together, cumulative bytes; per stage) and the
//! observation ends with ` mem=<single>@<stage>,<peak>@<stage>,<total> pmem=<peak of the parse stages>,<kept by the Package>`;
//! the driver judges the numbers (Spec/Alloc.lean: 64 KiB + 64·len single, 64 KiB + 128·len alive, 1 MiB + 1024·len in
//! total) and compares them with the model's account of the same input. `alloc-excess:<stage>` (single request above
//! 64 KiB + 64·len) is still prefixed here: it names the stage that went beyond the limit first.
//! `hostile BYTES` → `parse=<c> meta=<c> acc=<c> fmt=<c> digests=<c> sig=<c> keyids=<c> files=<c>` (fmt = the `Display` /
//! `Debug` impls of Header, IndexEntry, IndexData, Lead, PackageMetadata on the parsed values) with
//! c ∈ ok | err | panic | skip (`sigreal=` = `verify_signature` with a REAL `pgp::Verifier` — the Ed25519 test key, loaded
//! before the fork — where `sig=` uses a verifier that rejects everything); or `abort` (child died) / `alloc-excess`; plus `iter=<k>:<classes>:<fnv>|runaway|err|panic|skip`:
//! a consumer that keeps pulling items after an error (collect / filter_map) must see the iterator END (runaway = more
//! than the header's file count + 16 items were produced); otherwise the number of items it saw, their Ok / Err classes
//! run-length encoded and a hash of their paths and contents (`c07::drain_all`), which the model predicts
//! (Model/FileIter.lean); `err` = `files()` itself failed.
//! `hostsrc04 BYTES` → `parse=<c> cur=<c> open=<c> opens=<c> bufr=<c> mopen=<c>`: the same bytes, in the same kind of child,
//! through every SOURCE kind / entry point: `Package::parse` on a slice, on an `io::Cursor`, `Package::open(&Path)` and
//! `Package::open(&str)` on a file holding the bytes (std's default `BufReader<File>`), `Package::parse` over
//! `BufReader::with_capacity(16, File)`, `PackageMetadata::open`. The file is written by the parent before the fork.
use crate::common::*;
use crate::pkggen::*;
use std::io::Read;
use std::sync::atomic::{AtomicBool, AtomicIsize, AtomicUsize, Ordering};

pub static ALLOC_LIMIT: AtomicUsize = AtomicUsize::new(usize::MAX);
pub static ALLOC_EXCESS: AtomicBool = AtomicBool::new(false);
/// the measuring half of the allocator (switched on only inside a C04 child): the largest single request, the bytes
/// live at the same time (peak) and the bytes obtained in total (cumulative; a `realloc` counts by what it adds)
pub static MEM_ON: AtomicBool = AtomicBool::new(false);
pub static MEM_SINGLE: AtomicUsize = AtomicUsize::new(0);
pub static MEM_LIVE: AtomicIsize = AtomicIsize::new(0);
pub static MEM_PEAK: AtomicIsize = AtomicIsize::new(0);
pub static MEM_TOTAL: AtomicUsize = AtomicUsize::new(0);

#[inline]
fn mem_note(request: usize, added: isize) {
    if !MEM_ON.load(Ordering::Relaxed) { return; }
    if request > MEM_SINGLE.load(Ordering::Relaxed) { MEM_SINGLE.store(request, Ordering::Relaxed); }
    let live = MEM_LIVE.load(Ordering::Relaxed) + added;
    MEM_LIVE.store(live, Ordering::Relaxed);
    if added > 0 {
        MEM_TOTAL.store(MEM_TOTAL.load(Ordering::Relaxed).saturating_add(added as usize), Ordering::Relaxed);
        if live > MEM_PEAK.load(Ordering::Relaxed) { MEM_PEAK.store(live, Ordering::Relaxed); }
    }
}

pub struct Counting;
unsafe impl std::alloc::GlobalAlloc for Counting {
    unsafe fn alloc(&self, l: std::alloc::Layout) -> *mut u8 {
        if l.size() > ALLOC_LIMIT.load(Ordering::Relaxed) {
            ALLOC_EXCESS.store(true, Ordering::Relaxed);
        }
        mem_note(l.size(), l.size() as isize);
        std::alloc::System.alloc(l)
    }
    unsafe fn dealloc(&self, p: *mut u8, l: std::alloc::Layout) {
        mem_note(0, -(l.size() as isize));
        std::alloc::System.dealloc(p, l)
    }
    unsafe fn realloc(&self, p: *mut u8, l: std::alloc::Layout, n: usize) -> *mut u8 {
        if n > ALLOC_LIMIT.load(Ordering::Relaxed) {
            ALLOC_EXCESS.store(true, Ordering::Relaxed);
        }
        mem_note(n, n as isize - l.size() as isize);
        std::alloc::System.realloc(p, l, n)
    }
}

struct NullLogger;
impl log::Log for NullLogger {
    fn enabled(&self, _: &log::Metadata) -> bool { true }
    fn log(&self, r: &log::Record) { let _ = format!("{}", r.args()); }
    fn flush(&self) {}
}
static LOGGER: NullLogger = NullLogger;

/// a verifier that accepts nothing: exercises the control flow without the pgp crate
#[derive(Debug)]
struct RejectAll;
impl rpm::signature::Verifying for RejectAll {
    type Signature = Vec<u8>;
    fn verify(&self, mut data: impl Read, _sig: &[u8]) -> Result<(), rpm::Error> {
        let mut sink = Vec::new();
        let _ = data.read_to_end(&mut sink);
        Err(rpm::Error::NoSignatureFound)
    }
    fn algorithm(&self) -> rpm::signature::AlgorithmType { rpm::signature::AlgorithmType::RSA }
}

/// discards what is written, counts it
struct FmtSink(u64);
impl std::io::Write for FmtSink {
    fn write(&mut self, b: &[u8]) -> std::io::Result<usize> { self.0 += b.len() as u64; Ok(b.len()) }
    fn flush(&mut self) -> std::io::Result<()> { Ok(()) }
}

fn cls<T, E>(r: Result<Result<T, E>, String>) -> &'static str {
    match r { Ok(Ok(_)) => "ok", Ok(Err(_)) => "err", Err(_) => "panic" }
}

/// which stage first tripped the allocation limit (set by `mark`)
static EXCESS_AT: std::sync::Mutex<Option<&'static str>> = std::sync::Mutex::new(None);
/// the counters as they stood at the end of every stage: (stage, largest single request, peak live, cumulative, live now)
static STAGE_LOG: std::sync::Mutex<([(&'static str, usize, isize, usize, isize); 16], usize)> = std::sync::Mutex::new(([("", 0, 0, 0, 0); 16], 0));
fn mark(stage: &'static str) {
    if ALLOC_EXCESS.load(Ordering::Relaxed) {
        let mut g = EXCESS_AT.lock().unwrap();
        if g.is_none() { *g = Some(stage); }
    }
    if MEM_ON.load(Ordering::Relaxed) {
        let mut g = STAGE_LOG.lock().unwrap();
        let k = g.1;
        if k < 16 {
            g.0[k] = (stage, MEM_SINGLE.load(Ordering::Relaxed), MEM_PEAK.load(Ordering::Relaxed), MEM_TOTAL.load(Ordering::Relaxed), MEM_LIVE.load(Ordering::Relaxed));
            g.1 = k + 1;
        }
    }
}

/// ` mem=<largest single request>@<stage>,<peak live bytes>@<stage>,<cumulative bytes> pmem=<peak live during the two parse
/// stages>,<bytes the parsed Package keeps>`: measured, not judged here — the driver holds the limits (Spec: in proportion to
/// the input length) and the model's own account of what `Header::parse` reserves and keeps (Model/Header.lean `parseAcct`)
fn mem_report() -> String {
    let g = STAGE_LOG.lock().unwrap();
    let log = &g.0[..g.1];
    let (mut s_at, mut p_at, mut s_prev, mut p_prev) = ("-", "-", 0usize, 0isize);
    for (st, s, p, _, _) in log {
        if *s > s_prev { s_prev = *s; s_at = st; }
        if *p > p_prev { p_prev = *p; p_at = st; }
    }
    let total = log.last().map(|x| x.3).unwrap_or(0);
    let parse = log.iter().find(|x| x.0 == "parse");
    format!(" mem={}@{},{}@{},{} pmem={},{}", s_prev, s_at, p_prev.max(0), p_at, total,
        parse.map(|x| x.2.max(0)).unwrap_or(0), parse.map(|x| x.4.max(0)).unwrap_or(0))
}

thread_local! {
    /// the real verifier of the `sigreal` stage (public Ed25519 test key of /repo), loaded once, before any fork
    static REAL_VERIFIER: Option<rpm::signature::pgp::Verifier> =
        std::fs::read(format!("{}/public_ed25519.asc", KEYDIR)).ok().and_then(|k| rpm::signature::pgp::Verifier::load_from_asc_bytes(&k).ok());
}
const KEYDIR: &str = "/repo/tests/assets/signing_keys";

fn stages(bytes: &[u8]) -> String {
    let meta = guarded(std::panic::AssertUnwindSafe(|| rpm::PackageMetadata::parse(&mut &bytes[..]).map(|_| ())));
    mark("meta");
    let pkg = guarded(std::panic::AssertUnwindSafe(|| rpm::Package::parse(&mut &bytes[..])));
    mark("parse");
    let mut out = format!("parse={} meta={}", cls(pkg.as_ref().map(|r| r.as_ref()).map_err(|e| e.clone())), cls(meta));
    match pkg {
        Ok(Ok(p)) => {
            let acc = guarded(std::panic::AssertUnwindSafe(|| { let _ = crate::c05::dump(&p.metadata); Ok::<(), ()>(()) }));
            mark("acc");
            // `Display` / `Debug` of the parsed (attacker-controlled) values: Header<IndexSignatureTag>, Header<IndexTag>
            // (→ IndexEntry, IndexData), PackageMetadata (→ Lead, both headers, every entry and its data). Written into a
            // discarding sink, so that any large allocation seen by the counter is the library's own, not this harness's.
            let fmt = guarded(std::panic::AssertUnwindSafe(|| -> std::io::Result<()> {
                use std::io::Write;
                let mut sink = FmtSink(0);
                write!(sink, "{}", p.metadata.signature)?;
                write!(sink, "{}", p.metadata.header)?;
                write!(sink, "{:?}", p.metadata.lead)?;
                write!(sink, "{:?}", p.metadata.signature)?;
                write!(sink, "{:?}", p.metadata)?;
                write!(sink, "{:#?}", p.metadata.header)?;
                // nothing printed at all would mean the impls were not reached
                if sink.0 == 0 { return Err(std::io::Error::new(std::io::ErrorKind::Other, "empty")); }
                Ok(())
            }));
            mark("fmt");
            let dig = guarded(std::panic::AssertUnwindSafe(|| p.verify_digests()));
            mark("digests");
            let sig = guarded(std::panic::AssertUnwindSafe(|| p.verify_signature(RejectAll)));
            mark("sig");
            // the real OpenPGP verifier on the (attacker-controlled) signature blobs and header bytes
            let sigreal = REAL_VERIFIER.with(|v| match v {
                Some(v) => cls(guarded(std::panic::AssertUnwindSafe(|| p.verify_signature(v)))),
                None => "nokey",
            });
            mark("sigreal");
            let key = guarded(std::panic::AssertUnwindSafe(|| p.signature_key_ids()));
            mark("keyids");
            let uncompressed = matches!(p.metadata.get_payload_compressor(), Ok(rpm::CompressionType::None));
            let files = if uncompressed {
                cls(guarded(std::panic::AssertUnwindSafe(|| -> Result<(), rpm::Error> {
                    for f in p.files()? {
                        f?;
                    }
                    Ok(())
                })))
            } else { "skip" };
            mark("files");
            let iter = if uncompressed {
                match guarded(std::panic::AssertUnwindSafe(|| crate::c07::drain_all(&p))) {
                    Ok(s) => if s == "err-files" { "err".to_string() } else { s },
                    Err(_) => "panic".to_string(),
                }
            } else { "skip".to_string() };
            mark("iter");
            out.push_str(&format!(" acc={} fmt={} digests={} sig={} sigreal={} keyids={} files={} iter={}", cls(acc), cls(fmt), cls(dig), cls(sig), sigreal, cls(key), files, iter));
        }
        _ => out.push_str(" acc=skip fmt=skip digests=skip sig=skip sigreal=skip keyids=skip files=skip iter=skip"),
    }
    out
}

/// every source kind / entry point of the read side on the same bytes (`path` holds them, written by the parent)
fn sources(bytes: &[u8], path: &std::path::Path) -> String {
    use std::panic::AssertUnwindSafe as A;
    let parse = guarded(A(|| rpm::Package::parse(&mut &bytes[..]).map(|_| ())));
    mark("parse");
    let cur = guarded(A(|| rpm::Package::parse(&mut std::io::Cursor::new(bytes)).map(|_| ())));
    mark("cur");
    let open = guarded(A(|| rpm::Package::open(path).map(|_| ())));
    mark("open");
    let opens = guarded(A(|| rpm::Package::open(path.to_str().unwrap_or("")).map(|_| ())));
    mark("opens");
    let bufr = guarded(A(|| -> Result<(), rpm::Error> {
        let f = std::fs::File::open(path)?;
        rpm::Package::parse(&mut std::io::BufReader::with_capacity(16, f)).map(|_| ())
    }));
    mark("bufr");
    let mopen = guarded(A(|| rpm::PackageMetadata::open(path).map(|_| ())));
    mark("mopen");
    format!("parse={} cur={} open={} opens={} bufr={} mopen={}", cls(parse), cls(cur), cls(open), cls(opens), cls(bufr), cls(mopen))
}

/// the largest single request a case may make: 64 KiB + 64 bytes per input byte (a `Vec<String>` of one-byte strings costs
/// 24 bytes per input byte, twice that while it grows; `Vec<IndexEntry>` 48 bytes per 16). The driver judges the measured
/// numbers by the same formula (`Driver/C04.lean singleLimit`); this copy only names the STAGE that first went beyond it.
pub fn single_limit(len: usize) -> usize { (64 << 10) + 64 * len }

/// run in a forked child; the parent only learns a line of text or that the child died
fn in_child(bytes: &[u8]) -> String {
    in_child_with(bytes, &|b| stages(b))
}

fn in_child_with(bytes: &[u8], work: &dyn Fn(&[u8]) -> String) -> String {
    unsafe {
        let mut fds = [0i32; 2];
        if libc::pipe(fds.as_mut_ptr()) != 0 {
            return "harness-error".into();
        }
        let pid = libc::fork();
        if pid == 0 {
            libc::close(fds[0]);
            let lim = libc::rlimit { rlim_cur: 3 << 30, rlim_max: 3 << 30 };
            libc::setrlimit(libc::RLIMIT_AS, &lim);
            ALLOC_EXCESS.store(false, Ordering::Relaxed);
            ALLOC_LIMIT.store(single_limit(bytes.len()), Ordering::Relaxed);
            MEM_SINGLE.store(0, Ordering::Relaxed); MEM_LIVE.store(0, Ordering::Relaxed);
            MEM_PEAK.store(0, Ordering::Relaxed); MEM_TOTAL.store(0, Ordering::Relaxed);
            MEM_ON.store(true, Ordering::Relaxed);
            let mut s = work(bytes);
            MEM_ON.store(false, Ordering::Relaxed);
            ALLOC_LIMIT.store(usize::MAX, Ordering::Relaxed);
            if ALLOC_EXCESS.load(Ordering::Relaxed) {
                s = format!("alloc-excess:{} {}", EXCESS_AT.lock().unwrap().unwrap_or("?"), s);
            }
            s.push_str(&mem_report());
            libc::write(fds[1], s.as_ptr() as *const libc::c_void, s.len());
            libc::_exit(0);
        }
        libc::close(fds[1]);
        let mut buf = Vec::new();
        let mut chunk = [0u8; 4096];
        loop {
            let n = libc::read(fds[0], chunk.as_mut_ptr() as *mut libc::c_void, chunk.len());
            if n <= 0 { break; }
            buf.extend_from_slice(&chunk[..n as usize]);
        }
        libc::close(fds[0]);
        let mut status = 0i32;
        libc::waitpid(pid, &mut status, 0);
        if libc::WIFEXITED(status) && libc::WEXITSTATUS(status) == 0 && !buf.is_empty() {
            String::from_utf8_lossy(&buf).to_string()
        } else {
            "abort".into()
        }
    }
}

pub fn eval(op: &str, a: &[&str]) -> Option<String> {
    match op {
        "pgpframes" => {
            let blob = arg_bytes(a[0]);
            Some(match rpm::verif_hooks::pgp_split_packets(&blob) {
                None => "none".into(),
                Some(l) => format!("ok:{}", l.iter().map(|x| x.to_string()).collect::<Vec<_>>().join(",")),
            })
        }
        "hostile" => {
            let _ = log::set_logger(&LOGGER);
            log::set_max_level(log::LevelFilter::Debug);
            REAL_VERIFIER.with(|_| ()); // loaded in the parent
            Some(in_child(&arg_bytes(a[0])))
        }
        "hostsrc04" => {
            let _ = log::set_logger(&LOGGER);
            log::set_max_level(log::LevelFilter::Debug);
            let bytes = arg_bytes(a[0]);
            static N: AtomicUsize = AtomicUsize::new(0);
            let path = std::env::temp_dir().join(format!("rpmverif-c04s-{}-{}.rpm", std::process::id(), N.fetch_add(1, Ordering::Relaxed)));
            if std::fs::write(&path, &bytes).is_err() {
                return Some("io-setup".into());
            }
            let r = in_child_with(&bytes, &|b| sources(b, &path));
            let _ = std::fs::remove_file(&path);
            Some(r)
        }
        // `alloc04 WHICH N S TY OFF CNT FILL`: the same read side on a package built from the parameters (the driver builds
        // the same bytes: inputs of 10^4..10^6 bytes travel as seven numbers); ` len= fnv=` identify the bytes used here
        "alloc04" => {
            if a.len() != 7 { return None; }
            let num = |i: usize| a[i].parse::<u64>().ok();
            let bytes = alloc_package(a[0], num(1)? as usize, num(2)? as usize, num(3)? as u32, num(4)? as u32, num(5)? as u32, num(6)?);
            let _ = log::set_logger(&LOGGER);
            log::set_max_level(log::LevelFilter::Debug);
            let r = in_child(&bytes);
            Some(format!("{} len={} fnv={:016x}", r, bytes.len(), fnv(&bytes)))
        }
        _ => None,
    }
}

/// the package of `alloc04`: lead, then the signature (`s`) or main (`h`) header with `n` identical index entries (tag 1000,
/// type `ty`, offset `off` as a bit pattern, count `cnt`) over an `s`-byte store (`fill` 0 = zeros, 1 = 'a's and a final
/// NUL, 2 = 'a',NUL pairs); the other header is empty, there is no payload
pub fn alloc_package(which: &str, n: usize, s: usize, ty: u32, off: u32, cnt: u32, fill: u64) -> Vec<u8> {
    let lead = gen_lead(&mut Rng::new(7), false);
    let mut h = GHeader::new();
    h.store = match fill {
        1 => { let mut v = vec![b'a'; s]; if let Some(l) = v.last_mut() { *l = 0; } v }
        2 => (0..s).map(|i| if i % 2 == 0 { b'a' } else { 0 }).collect(),
        _ => vec![0u8; s],
    };
    h.entries = vec![GEntry { tag: 1000, ty, off: off as i32, cnt }; n];
    let empty = GHeader::new();
    if which == "s" { assemble(&lead, &h, 0, &empty, &[]) } else { assemble(&lead, &empty, 0, &h, &[]) }
}

/// a small valid package with an uncompressed payload and files, built by the real builder
pub fn small_built(seed: u64, with_files: bool) -> Vec<u8> {
    let dir = std::path::PathBuf::from(format!("work/c04src-{}", std::process::id()));
    let _ = std::fs::create_dir_all(&dir);
    let mut b = rpm::PackageBuilder::new("hostile", "1.0", "MIT", "noarch", "s").compression(rpm::CompressionType::None).source_date(1_600_000_000u32);
    if with_files {
        for i in 0..2 {
            let p = dir.join(format!("f{}", i));
            std::fs::write(&p, vec![b'a' + i as u8; 5 + (seed as usize + i) % 7]).unwrap();
            b = b.with_file(&p, rpm::FileOptions::new(format!("/opt/h/f{}", i)).mode(rpm::FileMode::regular(0o644))).unwrap();
        }
    }
    let pkg = b.build().unwrap();
    let mut v = Vec::new();
    pkg.write(&mut v).unwrap();
    let _ = std::fs::remove_dir_all(&dir);
    v
}

/// the same kind of package (two files, uncompressed payload) built AND SIGNED by the library (`build_and_sign`, Ed25519
/// test key, signature time clamped to the source date: deterministic): digests, OPENPGP and the legacy signature tag in
/// the signature header
pub fn small_signed(seed: u64) -> Option<Vec<u8>> {
    let sec = std::fs::read(format!("{}/secret_ed25519.asc", KEYDIR)).ok()?;
    let signer = rpm::signature::pgp::Signer::load_from_asc_bytes(&sec).ok()?;
    let dir = std::path::PathBuf::from(format!("work/c04src-s{}", std::process::id()));
    let _ = std::fs::create_dir_all(&dir);
    let mut b = rpm::PackageBuilder::new("hostile", "1.0", "MIT", "noarch", "s").compression(rpm::CompressionType::None).source_date(1_600_000_000u32);
    for i in 0..2 {
        let p = dir.join(format!("f{}", i));
        std::fs::write(&p, vec![b'a' + i as u8; 5 + (seed as usize + i) % 7]).ok()?;
        b = b.with_file(&p, rpm::FileOptions::new(format!("/opt/h/f{}", i)).mode(rpm::FileMode::regular(0o644))).ok()?;
    }
    let pkg = b.build_and_sign(signer).ok()?;
    let mut v = Vec::new();
    pkg.write(&mut v).ok()?;
    let _ = std::fs::remove_dir_all(&dir);
    Some(v)
}

/// a hand-encoded package in the large-file layout: sizes in RPMTAG_LONGFILESIZES (64 bit, unchecked), an
/// uncompressed payload of stripped (`07070X`) entries that carry only a file index
pub fn stripped_pkg(sizes: &[u64], present: usize, idx_of: &dyn Fn(usize) -> u32, trailer: bool) -> Vec<u8> {
    let lead = gen_lead(&mut Rng::new(9), false);
    let n = sizes.len();
    let mut h = GHeader::new();
    h.push(1000, 6, &TData::Str(b"big".to_vec()));
    h.push(1030, 3, &TData::U16(vec![0o100644; n]));
    h.push(1034, 4, &TData::U32(vec![0; n]));
    h.push(1035, 8, &TData::Strs(vec![Vec::new(); n]));
    h.push(1036, 8, &TData::Strs(vec![Vec::new(); n]));
    h.push(1037, 4, &TData::U32(vec![0; n]));
    h.push(1039, 8, &TData::Strs(vec![b"root".to_vec(); n]));
    h.push(1040, 8, &TData::Strs(vec![b"root".to_vec(); n]));
    h.push(1116, 4, &TData::U32(vec![0; n]));
    h.push(1117, 8, &TData::Strs((0..n).map(|i| format!("f{}", i).into_bytes()).collect()));
    h.push(1118, 8, &TData::Strs(vec![b"/d/".to_vec()]));
    h.push(5008, 5, &TData::U64(sizes.to_vec()));
    let mut pay = Vec::new();
    for i in 0..n {
        pay.extend_from_slice(format!("07070X{:08x}", idx_of(i)).as_bytes());
        pay.extend_from_slice(&[0, 0]);
        let k = (sizes[i].min(present as u64)) as usize;
        pay.extend(std::iter::repeat(b'x').take(k));
        while pay.len() % 4 != 0 { pay.push(0); }
    }
    if trailer {
        pay.extend_from_slice(b"07070Xffffffff\0\0");
    }
    assemble(&lead, &GHeader::new(), 0, &h, &pay)
}

pub fn gen(ctx: &mut Ctx) {
    let (si, sn) = ctx.shard;
    if si == 0 {
        // large-file layout with extreme 64-bit sizes (taken unchecked from the header), short data, shuffled indexes
        let big = [0u64, 1, 5, 6, 0xffff_ffff, 0x1_0000_0000, 1 << 63, u64::MAX - 4, u64::MAX - 3, u64::MAX - 2, u64::MAX - 1, u64::MAX];
        for &a in &big {
            for present in [0usize, 5, 8] {
                for trailer in [true, false] {
                    ctx.req(&format!("hostile {}", hx(&stripped_pkg(&[a], present, &|i| i as u32, trailer))));
                    ctx.req(&format!("hostile {}", hx(&stripped_pkg(&[3, a], present, &|i| i as u32, trailer))));
                    ctx.req(&format!("hostile {}", hx(&stripped_pkg(&[a, 2], present, &|i| 1 - i as u32, trailer))));
                }
            }
        }
    }
    if si == 0 {
        // OpenPGP framing of signature blobs: every blob of up to 3 bytes over the bytes that matter, longer
        // structured ones, and the same blobs inside packages under every signature tag (key ids, verification)
        let alpha: [u8; 20] = [0x00, 0x01, 0x05, 0x3b, 0x7f, 0x80, 0x88, 0x89, 0x8a, 0x8b, 0x96, 0xbf, 0xc0, 0xc2, 0xdf, 0xe0, 0xe6, 0xfe, 0xff, 0x02];
        ctx.req("pgpframes -");
        for &a in &alpha {
            ctx.req(&format!("pgpframes {}", hx(&[a])));
            for &b in &alpha {
                ctx.req(&format!("pgpframes {}", hx(&[a, b])));
                for &c in &alpha {
                    ctx.req(&format!("pgpframes {}", hx(&[a, b, c])));
                }
            }
        }
        let lead = gen_lead(&mut Rng::new(11), false);
        let mut g = Rng::new(ctx.seed ^ 0x9697);
        for i in 0..ctx.q(1500u64, 30_000) {
            let mut blob = Vec::new();
            for _ in 0..(1 + g.below(3)) {
                let body = g.below(12) as usize;
                let declared: u64 = match g.below(6) { 0 => g.next() >> g.below(64), 1 => body as u64 + 1, 2 => body.saturating_sub(1) as u64, _ => body as u64 };
                match g.below(7) {
                    0 => { blob.push(0x88); blob.push(declared as u8); }                                   // old, 1-octet length
                    1 => { blob.push(0x89); blob.extend_from_slice(&(declared as u16).to_be_bytes()); }    // old, 2 octets
                    2 => { blob.push(0x8a); blob.extend_from_slice(&(declared as u32).to_be_bytes()); }    // old, 4 octets
                    3 => { blob.push(0x8b); }                                                               // old, indeterminate
                    4 => { blob.push(0xc2); blob.push((declared % 192) as u8); }                           // new, 1 octet
                    5 => { blob.push(0xc2); blob.push(192 + (declared % 32) as u8); blob.push(declared as u8); } // new, 2 octets / partial
                    _ => { blob.push(0xc2); blob.push(255); blob.extend_from_slice(&(declared as u32).to_be_bytes()); }
                }
                let k = body;
                blob.extend(g.bytes(k));
            }
            if g.chance(1, 5) { let cut = g.below(blob.len() as u64 + 1) as usize; blob.truncate(cut); }
            ctx.req(&format!("pgpframes {}", hx(&blob)));
            if i % 3 == 0 {
                let mut s = GHeader::new();
                match g.below(4) {
                    0 => { s.push(268, 7, &TData::Bytes(blob.clone())); }
                    1 => { s.push(267, 7, &TData::Bytes(blob.clone())); }
                    2 => { s.push(1002, 7, &TData::Bytes(blob.clone())); }
                    _ => {
                        // RPMSIGTAG_OPENPGP carries base64 text
                        const B64: &[u8; 64] = b"ABCDEFGHIJKLMNOPQRSTUVWXYZabcdefghijklmnopqrstuvwxyz0123456789+/";
                        let mut t = Vec::new();
                        for ch in blob.chunks(3) {
                            let n = (ch[0] as u32) << 16 | (*ch.get(1).unwrap_or(&0) as u32) << 8 | *ch.get(2).unwrap_or(&0) as u32;
                            t.push(B64[(n >> 18) as usize & 63]); t.push(B64[(n >> 12) as usize & 63]);
                            t.push(if ch.len() > 1 { B64[(n >> 6) as usize & 63] } else { b'=' });
                            t.push(if ch.len() > 2 { B64[n as usize & 63] } else { b'=' });
                        }
                        s.push(278, 8, &TData::Strs(vec![t]));
                    }
                }
                ctx.req(&format!("hostile {}", hx(&assemble(&lead, &s, 0, &GHeader::new(), &[]))));
            }
        }
    }
    if si == 0 {
        // well-formed v4 signature packets WITHOUT any sub-packet (no Issuer, no creation time) of every algorithm family, under
        // every signature tag, alone (no digests recorded: the verifiers are reached) — the `key_ids.is_empty()` arm of the real
        // `pgp::Verifier::verify` and the no-issuer arm of `signature_key_ids`
        let lead = gen_lead(&mut Rng::new(13), false);
        for alg in [1u8, 3, 17, 19, 22, 27, 0, 200] {
            let pkt = crate::c10::crafted_sig_packet(alg);
            for tag in [268u32, 267, 1002, 278] {
                let mut s = GHeader::new();
                if tag == 278 {
                    s.push(tag, 8, &TData::Strs(vec![crate::c02::b64_text(&pkt)]));
                } else {
                    s.push(tag, 7, &TData::Bytes(pkt.clone()));
                }
                ctx.req(&format!("hostile {}", hx(&assemble(&lead, &s, 0, &GHeader::new(), &[]))));
            }
        }
    }
    if si == 1 % sn {
        // gap G3: blobs that are a SEQUENCE of packets around real signatures (junk / garbage-in-a-frame / second signature /
        // trailing packets or unframed bytes / re-framed with every length format): the framing itself, and the whole read
        // side (key ids, verification: the pgp parser now sees several packets per blob) under the allocation limit
        let lead = gen_lead(&mut Rng::new(12), false);
        for (i, pb) in crate::c02::packet_blobs_all_keys(ctx.seed).iter().enumerate() {
            let blob = pb.bytes();
            ctx.req(&format!("pgpframes {}", hx(&blob)));
            if blob.is_empty() { continue; }
            let mut s = GHeader::new();
            match i % 4 {
                0 => { s.push(268, 7, &TData::Bytes(blob.clone())); }
                1 => { s.push(267, 7, &TData::Bytes(blob.clone())); }
                2 => { s.push(1002, 7, &TData::Bytes(blob.clone())); }
                _ => { s.push(278, 8, &TData::Strs(vec![crate::c02::b64_text(&blob)])); }
            }
            ctx.req(&format!("hostile {}", hx(&assemble(&lead, &s, 0, &GHeader::new(), &[]))));
        }
    }
    if si == 2 % sn {
        // memory in proportion to the input (audit a14 / c10): counts in the MIDDLE of the range (2^12, 2^16, 2^20: far above
        // what a short store can hold, far below the 2^31 / 2^32 - 1 of the boundary products) on every kind of entry, over
        // stores that are empty / short / one element short / exactly long enough; inputs of 10^3..10^6 bytes, so that the
        // per-byte part of the limits is what judges them, not the floor
        let big: &[u32] = if ctx.thorough { &[1 << 12, 1 << 16, 1 << 20] } else { &[1 << 12, 1 << 16] };
        for which in ["h", "s"] {
            for &cnt in big {
                for ty in [3u32, 4, 5] {
                    let w: u64 = match ty { 3 => 2, 4 => 4, _ => 8 };
                    for s in [0u64, 8, 4096, cnt as u64, cnt as u64 * w - w, cnt as u64 * w] {
                        if s > (1 << 20) { continue; }
                        ctx.req(&format!("alloc04 {} 1 {} {} 0 {} 0", which, s, ty, cnt));
                    }
                }
                for ty in [1u32, 2, 7] {
                    for s in [0u64, cnt as u64 - 1, cnt as u64] {
                        ctx.req(&format!("alloc04 {} 1 {} {} 0 {} 0", which, s, ty, cnt));
                    }
                }
                // strings: `cnt` empty strings (a 24-byte `String` per input byte), 'a',NUL pairs, one long string
                for ty in [8u32, 9] {
                    if cnt > (1 << 16) && !ctx.thorough { continue; }
                    ctx.req(&format!("alloc04 {} 1 {} {} 0 {} 0", which, cnt, ty, cnt));
                    ctx.req(&format!("alloc04 {} 1 {} {} 0 {} 0", which, cnt - 1, ty, cnt));
                    ctx.req(&format!("alloc04 {} 1 {} {} 0 {} 2", which, 2 * cnt as u64, ty, cnt));
                    ctx.req(&format!("alloc04 {} 1 {} {} 0 2 1", which, cnt, ty));
                }
                ctx.req(&format!("alloc04 {} 1 {} 6 0 1 1", which, cnt));
                // the count 2^20 against a store the reservation is capped by
                ctx.req(&format!("alloc04 {} 1 {} 5 0 1048576 0", which, cnt));
            }
            // many entries, disjoint in effect (count 0 / NULL) and the intro fields at 2^12 / 2^16 with nothing behind them
            ctx.req(&format!("alloc04 {} 4096 0 0 0 0 0", which));
            ctx.req(&format!("alloc04 {} 4096 16 7 0 16 0", which));
            // DEFECT-T11 (overlapping entries), kept as a regression family: index entries that point at the SAME store bytes
            // each got their own decoded copy, so an accepted header kept entries x store bytes (16.5 KB in, 4 MiB kept; rpm
            // rejects such headers). parse_header now charges every entry's data against a budget of the data section's length
            // and refuses the header when it is exceeded: every member of the family is `parse=err` (C04.overlap_refused); the
            // last two of each kind are beyond the limits of Spec/Alloc.lean if the budget check is ever lost.
            for (n, s) in [(16u64, 256u64), (64, 1024), (256, 4096), (512, 8192)] {
                ctx.req(&format!("alloc04 {} {} {} 7 0 {} 0", which, n, s, s));
                ctx.req(&format!("alloc04 {} {} {} 4 0 {} 0", which, n, s, s / 4));
            }
            for (n, s) in [(8u64, 128u64), (64, 1024), (128, 2048)] {
                ctx.req(&format!("alloc04 {} {} {} 8 0 {} 2", which, n, s, s / 2));
            }
        }
    }
    let base_a = small_built(1, true);
    let base_b = small_built(2, false);
    // a package built and signed by the library: base of truncations / mutations as well (its signature header carries
    // real OpenPGP material, which the `sigreal` stage hands to the real verifier)
    let base_s = small_signed(3).unwrap_or_else(|| base_a.clone());
    if si == 0 {
        // boundary-value products of intro fields and one index entry, in either header
        let lead = gen_lead(&mut Rng::new(7), false);
        let empty = GHeader::new();
        for which in 0..2 {
            for n in [0u32, 1, 2, 0x0fff_ffff, 0x1000_0000, u32::MAX] {
                for dl in [0u32, 1, 16, 0x7fff_ffff, u32::MAX - 15, u32::MAX] {
                    let mut h = GHeader::new();
                    h.n_override = Some(n);
                    h.dl_override = Some(dl);
                    let bytes = if which == 0 { assemble(&lead, &h, 0, &empty, &[]) } else { assemble(&lead, &empty, 0, &h, &[]) };
                    ctx.req(&format!("hostile {}", hx(&bytes)));
                }
            }
            let store: Vec<u8> = b"abc\0defg".to_vec();
            let len = store.len() as i64;
            for ty in 0u32..=10 {
                for off in [-1i64, 0, len - 1, len, len + 1, i32::MIN as i64, i32::MAX as i64] {
                    for cnt in [0u32, 1, len as u32, len as u32 + 1, 1 << 12, 1 << 16, 1 << 20, 0x8000_0000, u32::MAX] {
                        for (tag, unterminated) in [(1000u32, false), (1004, false), (1000, true)] {
                            let mut h = GHeader::new();
                            h.store = if unterminated { b"abcdefgh".to_vec() } else { store.clone() };
                            h.entries.push(GEntry { tag, ty, off: off as i32, cnt });
                            let bytes = if which == 0 { assemble(&lead, &h, 0, &empty, &[]) } else { assemble(&lead, &empty, 0, &h, &[]) };
                            ctx.req(&format!("hostile {}", hx(&bytes)));
                        }
                    }
                }
            }
        }
        // digest / signature tags with hostile contents on an otherwise valid package
        for algo in [0u32, 1, 2, 8, 9, 99, u32::MAX] {
            for digests in [0usize, 1, 2] {
                let mut h = GHeader::new();
                h.push(5092, 8, &TData::Strs(vec![b"00".to_vec(); digests]));
                h.push(5093, 4, &TData::U32(vec![algo]));
                ctx.req(&format!("hostile {}", hx(&assemble(&lead, &empty, 0, &h, &[1, 2, 3]))));
            }
        }
        for siglen in [0usize, 1, 4, 5, 6] {
            for tag in [267u32, 268, 1002, 278] {
                let mut s = GHeader::new();
                if tag == 278 {
                    s.push(tag, 8, &TData::Strs(vec![b"AAAA".to_vec(); siglen.min(2)]));
                } else {
                    s.push(tag, 7, &TData::Bytes(vec![0x88; siglen]));
                }
                ctx.req(&format!("hostile {}", hx(&assemble(&lead, &s, 0, &empty, &[]))));
            }
        }
        // every truncation of two small valid packages
        for base in [&base_a, &base_b] {
            for k in 0..base.len() {
                ctx.req(&format!("hostile {}", hx(&base[..k])));
            }
        }
    }
    // every truncation of the signed package (whole read side), and every truncation of all three once more through the
    // other source kinds (Cursor, File + default BufReader, File + 16-byte BufReader, metadata-only open)
    for (bi, base) in [&base_s, &base_a, &base_b].iter().enumerate() {
        for k in 0..=base.len() {
            if (k as u64 + bi as u64) % sn != si { continue; }
            if bi == 0 {
                ctx.req(&format!("hostile {}", hx(&base[..k])));
            }
            ctx.req(&format!("hostsrc04 {}", hx(&base[..k])));
        }
    }
    if si == 0 {
        // hostile cpio headers: rewrite fields of the first archive entry of the built package
        if let Ok(p) = rpm::Package::parse(&mut &base_a[..]) {
            let off = p.metadata.get_package_segment_offsets().payload as usize;
            for (field, vals) in [
                (11usize, vec!["00000000", "00001000", "00001001", "ffffffff", "0000000g"]), // namesize
                (6, vec!["00000000", "00000001", "7fffffff", "ffffffff"]),                    // filesize
            ] {
                for v in vals {
                    let mut b = base_a.clone();
                    let pos = off + 6 + 8 * field;
                    if pos + 8 <= b.len() {
                        b[pos..pos + 8].copy_from_slice(v.as_bytes());
                        ctx.req(&format!("hostile {}", hx(&b)));
                    }
                }
            }
            for magic in ["07070X", "070702", "07070Y"] {
                for idx in ["00000000", "00000001", "00000002", "7fffffff", "ffffffff"] {
                    let mut b = base_a.clone();
                    if off + 14 <= b.len() {
                        b[off..off + 6].copy_from_slice(magic.as_bytes());
                        b[off + 6..off + 14].copy_from_slice(idx.as_bytes());
                        ctx.req(&format!("hostile {}", hx(&b)));
                    }
                }
            }
        }
    }
    // single-byte mutations (3 values per position) of the two small packages
    for (bi, base) in [&base_a, &base_b, &base_s].iter().enumerate() {
        for pos in 0..base.len() {
            if (pos as u64 + bi as u64) % sn != si { continue; }
            if !ctx.thorough && pos % 3 != 0 { continue; }
            for v in [0u8, 0xff, base[pos] ^ 0x80] {
                if v == base[pos] { continue; }
                let mut b = (*base).clone();
                b[pos] = v;
                ctx.req(&format!("hostile {}", hx(&b)));
                // mutated (complete) inputs through the other source kinds: every 4th position of the signed package
                if bi == 2 && pos % 4 == 0 && v == base[pos] ^ 0x80 {
                    ctx.req(&format!("hostsrc04 {}", hx(&b)));
                }
            }
        }
    }
    // seeded structure-aware damage
    let n = ctx.q(6_000u64, 400_000) / sn;
    for i in 0..n {
        let lead = gen_lead(&mut ctx.rng, i % 7 == 0);
        let mut sig = gen_header_wf(&mut ctx.rng);
        let mut hdr = gen_header_wf(&mut ctx.rng);
        for _ in 0..(1 + ctx.rng.below(3)) {
            if ctx.rng.chance(1, 2) { damage(&mut ctx.rng, &mut sig) } else { damage(&mut ctx.rng, &mut hdr) }
        }
        let n = ctx.rng.below(20) as usize;
        let pay = ctx.rng.bytes(n);
        ctx.req(&format!("hostile {}", hx(&assemble(&lead, &sig, 0, &hdr, &pay))));
    }
    // typed headers: every tag the accessors read, with wrong types / lengths / missing members
    let n = ctx.q(3_000u64, 100_000) / sn;
    for _ in 0..n {
        let bytes = crate::c05::gen_typed(&mut ctx.rng);
        ctx.req(&format!("hostile {}", hx(&bytes)));
    }
    // mutated assets (thorough): random byte edits in the metadata region
    if ctx.thorough {
        if let Ok(d) = std::fs::read_dir("work") {
            let pre = format!("c04-mut-{}-", si);
            for e in d.filter_map(|e| e.ok()) {
                if e.file_name().to_string_lossy().starts_with(&pre) { let _ = std::fs::remove_file(e.path()); }
            }
        }
        for p in asset_paths() {
            if let Ok(orig) = std::fs::read(&p) {
                if orig.len() > 40_000 { continue; }
                for _ in 0..(2000 / sn) {
                    let mut b = orig.clone();
                    for _ in 0..(1 + ctx.rng.below(3)) {
                        let pos = ctx.rng.below(b.len().min(8000) as u64) as usize;
                        b[pos] = ctx.rng.next() as u8;
                    }
                    let path = format!("work/c04-mut-{}-{}.bin", si, ctx.n);
                    let _ = std::fs::create_dir_all("work");
                    std::fs::write(&path, &b).unwrap();
                    // the driver reads the blob later: files stay until the next thorough run of this shard
                    ctx.req(&format!("hostile @{}", path));
                }
            }
        }
    }
}
