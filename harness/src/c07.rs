//! C07: payload iteration returns every file's exact content under its own metadata.
//!
//! `files comp=<type>[:<level>] large=<0|1> [thr=<N>] [f=<hexdest>:<octperm>:<size>:<kind><seed>]*`
//!     builds a package with the real `PackageBuilder` (source files in a scratch directory under
//!     `work/`), writes it to bytes, re-parses it and iterates `Package::files()`.
//!     `large=1` forces the large-file (stripped cpio) form through the rpm_verif hook (threshold 0); `thr=<N>` sets the
//!     hook's threshold to N instead, so that the builder's switch `combined_file_sizes > threshold` — the guard in front of
//!     `payload::Writer`, whose `u32` arithmetic needs it — is exercised AT its boundary (combined = N, N + 1).
//!     Content generators (the Lean driver regenerates the same bytes):
//!       kind `r` (compressible): byte i = (seed + i) mod 251
//!       kind `p` (incompressible): splitmix64 — state s0 = seed; block k: s += 0x9E3779B97F4A7C15,
//!           z = s; z = (z ^ z>>30) * 0xBF58476D1CE4E5B9; z = (z ^ z>>27) * 0x94D049BB133111EB; z ^= z>>31;
//!           the 8 bytes of z, little endian; concatenated and cut to `size`.
//! `filesraw <package bytes>`
//!     parses a (hand-assembled, foreign) package and iterates `Package::files()`.
//!
//! observation: `ok n=<yielded> ar=<fnv of the raw payload | -> {<path>:<size>:<len>:<fnv>:<octmode>:<dg>}`
//!     (`path` = hex, or `L<len>.<fnv>` above 40 bytes; `size` = recorded size, `len` = |content|;
//!      `dg` = 1/0: sha256(content) (sha2 crate, computed here) equals / differs from the recorded digest,
//!      `n`: no digest recorded), followed by `err@<i>` when the i-th `next()` returned an error, and by
//!     `all=<k>:<classes>:<fnv>`: a SECOND, fresh `files()` iterator drained like `collect()` does — without stopping
//!     at an error item — until the first `None`: number of items, their classes run-length encoded (`o2e1` = two Ok
//!     items, then one Err; `-` = none), fnv over (path 00 content 01 | 02 for an Err) of all of them;
//!     `all=runaway` when more than (header files + 16) items came out;
//!     `err-build`, `err-write`, `err-parse`, `err-files` when an earlier step failed;
//!     `mem-differs <observation>`: `files` iterates BOTH the un-reparsed `Package` value `build()` returned and its written and
//!     re-parsed form; this is the answer (with what the in-memory value gave) when the two observations are not the same.
use crate::common::*;
use crate::pkggen::*;
use sha2::Digest;
use std::os::unix::ffi::OsStrExt;

pub fn content_of(kind: char, seed: u64, size: usize) -> Vec<u8> {
    match kind {
        'r' => (0..size).map(|i| ((seed as u128 + i as u128) % 251) as u8).collect(),
        _ => {
            let mut v = Vec::with_capacity(size + 8);
            let mut s = seed;
            while v.len() < size {
                s = s.wrapping_add(0x9E3779B97F4A7C15);
                let mut z = s;
                z = (z ^ (z >> 30)).wrapping_mul(0xBF58476D1CE4E5B9);
                z = (z ^ (z >> 27)).wrapping_mul(0x94D049BB133111EB);
                z ^= z >> 31;
                v.extend_from_slice(&z.to_le_bytes());
            }
            v.truncate(size);
            v
        }
    }
}

fn path_repr(p: &[u8]) -> String {
    if p.len() <= 40 { hx(p) } else { format!("L{}.{:016x}", p.len(), fnv(p)) }
}

/// what a consumer sees that does NOT stop at an error item (`collect()`, `filter_map(Result::ok)`, `count()`):
/// `<k>:<classes>:<fnv>` | `runaway` | `err-files` (see the module comment). The iterator is pulled at most
/// (header files + 17) times.
pub fn drain_all(pkg: &rpm::Package) -> String {
    let cap = pkg.metadata.get_file_entries().map(|v| v.len()).unwrap_or(0) + 16;
    let it = match pkg.files() {
        Ok(it) => it,
        Err(_) => return "err-files".into(),
    };
    let mut h: u64 = 0xcbf29ce484222325;
    let mut eat = |bs: &[u8]| {
        for b in bs {
            h = (h ^ *b as u64).wrapping_mul(0x100000001b3);
        }
    };
    let mut runs: Vec<(char, usize)> = Vec::new();
    let mut k = 0usize;
    for r in it.take(cap + 1) {
        k += 1;
        let c = match r {
            Ok(f) => {
                eat(f.metadata.path.as_os_str().as_bytes());
                eat(&[0]);
                eat(&f.content);
                eat(&[1]);
                'o'
            }
            Err(_) => {
                eat(&[2]);
                'e'
            }
        };
        match runs.last_mut() {
            Some((d, n)) if *d == c => *n += 1,
            _ => runs.push((c, 1)),
        }
    }
    if k > cap {
        return "runaway".into();
    }
    // the standard adapters are repeated `next()` calls by definition: `nth`, `skip`, `step_by`, `last`, `count` on fresh
    // iterators must hand out the corresponding items of the plain iteration (seed C07-9: an `nth` override that left the
    // padding of skipped entries in the stream). Compared only when the plain iteration met no error item.
    // … and handed out every header file: an iteration that a trailer ended early is not fused (`next()` after that `None`
    // goes on reading, Model/FileIter.lean), so "the rest after nth" is not defined by the plain iteration there.
    if !runs.iter().any(|(c, _)| *c == 'e') && k + 16 == cap {
        if let Some(which) = adapters_differ(pkg, k) {
            return format!("adapters-differ:{}", which);
        }
    }
    let pat: String = if runs.is_empty() { "-".into() } else { runs.iter().map(|(c, n)| format!("{}{}", c, n)).collect() };
    format!("{}:{}:{:016x}", k, pat, h)
}

fn item_sig(r: Result<rpm::RpmFile, rpm::Error>) -> String {
    match r {
        Ok(f) => format!("{}:{:016x}:{}", hx(f.metadata.path.as_os_str().as_bytes()), fnv(&f.content), f.content.len()),
        Err(_) => "e".into(),
    }
}

/// `Some(adapter name)` when an adapter over a fresh `files()` iterator disagrees with the plain iteration of `n` items
fn adapters_differ(pkg: &rpm::Package, n: usize) -> Option<&'static str> {
    let plain: Vec<String> = pkg.files().ok()?.take(n + 1).map(item_sig).collect();
    let fresh = || pkg.files().ok();
    if fresh()?.skip(1).take(n + 1).map(item_sig).collect::<Vec<_>>() != plain.iter().skip(1).cloned().collect::<Vec<_>>() {
        return Some("skip");
    }
    if fresh()?.step_by(2).take(n + 1).map(item_sig).collect::<Vec<_>>() != plain.iter().step_by(2).cloned().collect::<Vec<_>>() {
        return Some("step_by");
    }
    for j in [1usize, 2] {
        let mut it = fresh()?;
        let got = it.nth(j).map(item_sig);
        let rest: Vec<String> = it.take(n + 1).map(item_sig).collect();
        if got != plain.get(j).cloned() || rest != plain.iter().skip(j + 1).cloned().collect::<Vec<_>>() {
            return Some("nth");
        }
    }
    if fresh()?.count() != plain.len() {
        return Some("count");
    }
    if fresh()?.last().map(item_sig) != plain.last().cloned() {
        return Some("last");
    }
    None
}

/// iterate `files()` and print the canonical observation
fn observe(pkg: &rpm::Package, with_ar: bool) -> String {
    let it = match pkg.files() {
        Ok(it) => it,
        Err(_) => return "err-files".into(),
    };
    let mut items = Vec::new();
    let mut err_at = None;
    for (i, r) in it.enumerate() {
        match r {
            Ok(f) => {
                let dg = match &f.metadata.digest {
                    None => "n",
                    Some(d) => {
                        let h = hex::encode(sha2::Sha256::digest(&f.content));
                        if d.as_hex() == h { "1" } else { "0" }
                    }
                };
                items.push(format!(
                    "{}:{}:{}:{:016x}:{:o}:{}",
                    path_repr(f.metadata.path.as_os_str().as_bytes()),
                    f.metadata.size,
                    f.content.len(),
                    fnv(&f.content),
                    f.metadata.mode.raw_mode(),
                    dg
                ));
            }
            Err(_) => {
                err_at = Some(i);
                break; // the stream position after an I/O error is not defined
            }
        }
    }
    let ar = if with_ar { format!("{:016x}", fnv(&pkg.content)) } else { "-".to_string() };
    let mut s = format!("ok n={} ar={}", items.len(), ar);
    for it in &items {
        s.push(' ');
        s.push_str(it);
    }
    if let Some(i) = err_at {
        s.push_str(&format!(" err@{}", i));
    }
    s.push_str(&format!(" all={}", drain_all(pkg)));
    s
}

fn parse_comp(s: &str) -> Option<rpm::CompressionWithLevel> {
    let (t, l) = match s.split_once(':') {
        Some((t, l)) => (t, Some(l)),
        None => (s, None),
    };
    Some(match (t, l) {
        ("none", _) => rpm::CompressionWithLevel::None,
        ("gzip", Some(l)) => rpm::CompressionWithLevel::Gzip(l.parse().ok()?),
        ("zstd", Some(l)) => rpm::CompressionWithLevel::Zstd(l.parse().ok()?),
        ("xz", Some(l)) => rpm::CompressionWithLevel::Xz(l.parse().ok()?),
        ("bzip2", Some(l)) => rpm::CompressionWithLevel::Bzip2(l.parse().ok()?),
        ("gzip", None) => rpm::CompressionType::Gzip.into(),
        ("zstd", None) => rpm::CompressionType::Zstd.into(),
        ("xz", None) => rpm::CompressionType::Xz.into(),
        ("bzip2", None) => rpm::CompressionType::Bzip2.into(),
        _ => return None,
    })
}

struct Scratch(std::path::PathBuf);
impl Drop for Scratch {
    fn drop(&mut self) {
        let _ = std::fs::remove_dir_all(&self.0);
    }
}
struct LargeGuard;
impl Drop for LargeGuard {
    fn drop(&mut self) {
        rpm::verif_hooks::set_large_file_threshold(None);
    }
}

static SCRATCH_N: std::sync::atomic::AtomicU64 = std::sync::atomic::AtomicU64::new(0);

fn files_op(a: &[&str]) -> Option<String> {
    let mut comp = rpm::CompressionWithLevel::None;
    let mut is_none = true;
    let mut large = false;
    let mut thr: Option<u64> = None;
    let mut specs: Vec<(String, u16, usize, char, u64)> = Vec::new();
    for t in a {
        if let Some(c) = t.strip_prefix("comp=") {
            comp = parse_comp(c)?;
            is_none = c == "none";
        } else if let Some(l) = t.strip_prefix("large=") {
            large = l == "1";
        } else if let Some(n) = t.strip_prefix("thr=") {
            thr = Some(n.parse().ok()?);
        } else if let Some(f) = t.strip_prefix("f=") {
            let p: Vec<&str> = f.split(':').collect();
            if p.len() != 4 { return None; }
            let dest = String::from_utf8(unhx(p[0])).ok()?;
            let perm = u16::from_str_radix(p[1], 8).ok()?;
            let size: usize = p[2].parse().ok()?;
            let kind = p[3].chars().next()?;
            let seed: u64 = p[3][1..].parse().ok()?;
            specs.push((dest, perm, size, kind, seed));
        } else {
            return None;
        }
    }
    let n = SCRATCH_N.fetch_add(1, std::sync::atomic::Ordering::SeqCst);
    let dir = std::path::PathBuf::from(format!("work/c07-scratch-{}-{}", std::process::id(), n));
    std::fs::create_dir_all(&dir).ok()?;
    let _scratch = Scratch(dir.clone());
    rpm::verif_hooks::set_now(Some(1_600_000_000));
    let mut b = rpm::PackageBuilder::new("c07", "1.0", "MIT", "noarch", "payload iteration").compression(comp);
    for (i, (dest, perm, size, kind, seed)) in specs.iter().enumerate() {
        let src = dir.join(format!("f{}", i));
        std::fs::write(&src, content_of(*kind, *seed, *size)).ok()?;
        // kind 's': the entry is a symbolic link with a (non-empty) target; its archive data is still the source file's bytes,
        // recorded size and digest are those of that content (seed C07-10: the link target written as entry data)
        let opts = if *kind == 's' {
            rpm::FileOptions::new(dest.clone()).mode(rpm::FileMode::symbolic_link(*perm)).symlink(format!("/link/target{}", seed))
        } else {
            rpm::FileOptions::new(dest.clone()).mode(rpm::FileMode::regular(*perm))
        };
        b = match b.with_file(&src, opts) {
            Ok(b) => b,
            Err(_) => return Some("err-build".into()),
        };
    }
    let _guard = LargeGuard;
    if let Some(n) = thr {
        rpm::verif_hooks::set_large_file_threshold(Some(n));
    } else if large {
        rpm::verif_hooks::set_large_file_threshold(Some(0));
    }
    let pkg = match b.build() {
        Ok(p) => p,
        Err(_) => return Some("err-build".into()),
    };
    let mut bytes = Vec::new();
    if pkg.write(&mut bytes).is_err() {
        return Some("err-write".into());
    }
    // the UN-REPARSED value `build()` returned is iterated as well: it must hand out what its written and re-parsed form does
    let mem = observe(&pkg, is_none);
    drop(pkg);
    let pkg = match rpm::Package::parse(&mut &bytes[..]) {
        Ok(p) => p,
        Err(_) => return Some("err-parse".into()),
    };
    let re = observe(&pkg, is_none);
    if mem != re {
        return Some(format!("mem-differs {}", mem));
    }
    Some(re)
}

fn filesraw_op(bytes: &[u8]) -> String {
    match rpm::Package::parse(&mut &bytes[..]) {
        Ok(p) => observe(&p, false),
        Err(_) => "err-parse".into(),
    }
}

pub fn eval(op: &str, a: &[&str]) -> Option<String> {
    match op {
        "files" => files_op(a),
        "filesraw" => Some(filesraw_op(&arg_bytes(a[0]))),
        _ => None,
    }
}

// ---------------------------------------------------------------------------------------------
// generation

/// the harness' own cpio writer (independent of rpm's): `name` is written as given (the caller adds
/// the NULs), `namesize` = its length
fn cpio_entry(magic: &[u8], name_with_nul: &[u8], ino: u32, mode: u32, nlink: u32, data: &[u8], check: u32) -> Vec<u8> {
    let mut v = Vec::new();
    v.extend_from_slice(magic);
    for x in [ino, mode, 0, 0, nlink, 0, data.len() as u32, 0, 0, 0, 0, name_with_nul.len() as u32, check] {
        v.extend_from_slice(format!("{:08x}", x).as_bytes());
    }
    v.extend_from_slice(name_with_nul);
    while v.len() % 4 != 0 { v.push(0); }
    v.extend_from_slice(data);
    while v.len() % 4 != 0 { v.push(0); }
    v
}
/// one 8-character numeric field in another spelling `u32::from_str_radix(_, 16)` accepts: 0 = `{:08x}` (what every writer
/// emits), 1 = upper-case digits, 2 = a leading `+` and 7 digits (values below 16^7), 3 = both
fn field(x: u32, style: u8) -> String {
    match style {
        1 => format!("{:08X}", x),
        2 if x < (1 << 28) => format!("+{:07x}", x),
        3 if x < (1 << 28) => format!("+{:07X}", x),
        3 => format!("{:08X}", x),
        _ => format!("{:08x}", x),
    }
}
/// `cpio_entry` with the numeric fields spelled in `style` and, optionally, a `filesize` field that is NOT the length of the data
/// that follows (`declared`)
fn cpio_entry_styled(magic: &[u8], name_with_nul: &[u8], ino: u32, mode: u32, data: &[u8], check: u32, style: u8, declared: Option<u32>) -> Vec<u8> {
    let mut v = Vec::new();
    v.extend_from_slice(magic);
    for x in [ino, mode, 0, 0, 1, 0, declared.unwrap_or(data.len() as u32), 0, 0, 0, 0, name_with_nul.len() as u32, check] {
        v.extend_from_slice(field(x, style).as_bytes());
    }
    v.extend_from_slice(name_with_nul);
    while v.len() % 4 != 0 { v.push(0); }
    v.extend_from_slice(data);
    while v.len() % 4 != 0 { v.push(0); }
    v
}
fn stripped_entry_styled(idx: u32, data: &[u8], style: u8) -> Vec<u8> {
    let mut v = b"07070X".to_vec();
    v.extend_from_slice(field(idx, style).as_bytes());
    v.extend_from_slice(&[0, 0]);
    v.extend_from_slice(data);
    while v.len() % 4 != 0 { v.push(0); }
    v
}
fn cpio_trailer() -> Vec<u8> {
    cpio_entry(b"070701", b"TRAILER!!!\0", 0, 0, 1, &[], 0)
}
fn stripped_entry(idx: u32, data: &[u8]) -> Vec<u8> {
    let mut v = b"07070X".to_vec();
    v.extend_from_slice(format!("{:08x}", idx).as_bytes());
    v.extend_from_slice(&[0, 0]);
    v.extend_from_slice(data);
    while v.len() % 4 != 0 { v.push(0); }
    v
}

#[derive(Clone)]
struct FFile {
    dir: Vec<u8>,   // ends with '/'
    base: Vec<u8>,
    mode: u16,
    data: Vec<u8>,
    ghost: bool,
}
impl FFile {
    fn cpio_name(&self) -> Vec<u8> {
        let mut v = b".".to_vec();
        v.extend_from_slice(&self.dir);
        v.extend_from_slice(&self.base);
        v
    }
}

/// lead ++ empty signature header ++ main header carrying the file tags `get_file_entries` needs ++ archive.
/// Generator contract (the driver relies on it for `dg`): FILEDIGESTS[i] is the SHA-256 of the content
/// the package means for file i (empty for a %ghost file, which has no content in the archive).
fn foreign_pkg(files: &[FFile], long_sizes: bool, archive: &[u8]) -> Vec<u8> {
    let mut h = GHeader::new();
    h.push(1000, 6, &TData::Str(b"foreign".to_vec()));
    if !files.is_empty() {
        let mut dirs: Vec<Vec<u8>> = Vec::new();
        let mut dix = Vec::new();
        for f in files {
            let k = match dirs.iter().position(|d| d == &f.dir) {
                Some(k) => k,
                None => { dirs.push(f.dir.clone()); dirs.len() - 1 }
            };
            dix.push(k as u32);
        }
        let strs = |f: &dyn Fn(&FFile) -> Vec<u8>| TData::Strs(files.iter().map(|x| f(x)).collect());
        if long_sizes {
            h.push(5008, 5, &TData::U64(files.iter().map(|f| if f.ghost { 0 } else { f.data.len() as u64 }).collect()));
        } else {
            h.push(1028, 4, &TData::U32(files.iter().map(|f| if f.ghost { 0 } else { f.data.len() as u32 }).collect()));
        }
        h.push(1030, 3, &TData::U16(files.iter().map(|f| f.mode).collect()));
        h.push(1034, 4, &TData::U32(files.iter().map(|_| 1_600_000_000).collect()));
        h.push(1035, 8, &strs(&|f| if f.ghost { vec![] } else { hex::encode(sha2::Sha256::digest(&f.data)).into_bytes() }));
        h.push(1036, 8, &strs(&|_| vec![]));
        h.push(1037, 4, &TData::U32(files.iter().map(|f| if f.ghost { 64 } else { 0 }).collect()));
        h.push(1039, 8, &strs(&|_| b"root".to_vec()));
        h.push(1040, 8, &strs(&|_| b"root".to_vec()));
        h.push(1116, 4, &TData::U32(dix));
        h.push(1117, 8, &strs(&|f| f.base.clone()));
        h.push(1118, 8, &TData::Strs(dirs));
        h.push(5011, 4, &TData::U32(vec![8]));
    }
    let lead = gen_lead(&mut Rng::new(7), false);
    assemble(&lead, &GHeader::new(), 0, &h, archive)
}

/// family 16 of the foreign packages (an archive entry whose own `filesize` differs from the size the rpm header records): the
/// iterator hands such entries out with the length of the ARCHIVE and the metadata of the HEADER, which the property's
/// "its length equals the recorded size" does not allow (class `recorded-size-disagrees`, C07 `recorded_size_not_compared_witness`)
const SIZE_DISAGREE_CASES: bool = true;
const SIZES: [usize; 11] = [0, 1, 2, 3, 4, 5, 7, 8, 4095, 4096, 70000];
const SMALL: [usize; 8] = [0, 1, 2, 3, 4, 5, 7, 8];

struct Emit<'a> {
    ctx: &'a mut Ctx,
    k: u64,
}
impl Emit<'_> {
    fn req(&mut self, line: &str) {
        let (si, sn) = self.ctx.shard;
        if self.k % sn == si {
            self.ctx.req(line);
        }
        self.k += 1;
    }
    fn raw(&mut self, pkg: &[u8]) {
        let (si, sn) = self.ctx.shard;
        if self.k % sn == si {
            let _ = std::fs::create_dir_all("work/c07-blobs");
            let arg = blob_arg("work/c07-blobs", &format!("s{}-{}-{}", self.ctx.seed, si, self.k), pkg);
            self.ctx.req(&format!("filesraw {}", arg));
        }
        self.k += 1;
    }
}

fn fspec(dest: &[u8], perm: u32, size: usize, kind: char, seed: u64) -> String {
    format!("f={}:{:o}:{}:{}{}", hx(dest), perm, size, kind, seed)
}

fn rand_dest(rng: &mut Rng, used: &mut Vec<Vec<u8>>) -> Vec<u8> {
    loop {
        let depth = 1 + rng.below(3);
        let mut d = Vec::new();
        for _ in 0..depth {
            d.push(b'/');
            let hi = if rng.chance(1, 10) { 60 } else { 6 };
            let n = 1 + rng.below(hi) as usize;
            for _ in 0..n {
                d.push(b"abcxyzAZ019._-+~ "[rng.below(17) as usize]);
            }
            if rng.chance(1, 12) {
                d.extend_from_slice("é√".as_bytes());
            }
        }
        // no "." / ".." components, no duplicates, no prefix-of-another conflicts matter here
        let comps_ok = d.split(|b| *b == b'/').all(|c| c != b"." && c != b"..");
        if comps_ok && !used.contains(&d) {
            used.push(d.clone());
            return d;
        }
    }
}

fn levels(ctx: &Ctx) -> Vec<String> {
    let mut v = vec!["none".to_string()];
    if ctx.thorough {
        for l in 0..=9 { v.push(format!("gzip:{}", l)); }
        for l in 0..=9 { v.push(format!("xz:{}", l)); }
        for l in 1..=9 { v.push(format!("bzip2:{}", l)); }
        for l in [-131072i32, -65536, -1000, -50] { v.push(format!("zstd:{}", l)); }
        for l in -7..=22 { v.push(format!("zstd:{}", l)); }
    } else {
        for s in ["gzip:0", "gzip:6", "gzip:9", "xz:0", "xz:6", "xz:9", "bzip2:1", "bzip2:5", "bzip2:9",
                  "zstd:-131072", "zstd:-1", "zstd:3", "zstd:19", "zstd:22"] {
            v.push(s.to_string());
        }
    }
    v
}

/// corpus/C07/*.case: witnesses kept from earlier runs (one request per line), always run first (by shard 0)
fn corpus_requests() -> Vec<String> {
    let mut v: Vec<_> = std::fs::read_dir("corpus/C07")
        .map(|d| d.filter_map(|e| e.ok()).map(|e| e.path()).filter(|p| p.extension().map(|x| x == "case").unwrap_or(false)).collect())
        .unwrap_or_default();
    v.sort();
    v.iter()
        .filter_map(|p| std::fs::read_to_string(p).ok())
        .flat_map(|s| s.lines().map(|l| l.split(" => ").next().unwrap_or("").trim().to_string()).filter(|l| !l.is_empty() && !l.starts_with('#')).collect::<Vec<_>>())
        .collect()
}

pub fn gen(ctx: &mut Ctx) {
    if ctx.shard.0 == 0 && SIZE_DISAGREE_CASES {
        for r in corpus_requests() { ctx.req(&r); }
    }
    // every shard walks the same deterministic case list (seeded by --seed only) and keeps its share
    let mut rng = Rng::new(ctx.seed ^ 0xC07);
    let thorough = ctx.thorough;
    let lv = levels(ctx);
    let mut e = Emit { ctx, k: 0 };

    // A. every compression type x level: a mixed set, and a 70 kB compressible + incompressible pair
    for c in &lv {
        let s = rng.below(1000);
        e.req(&format!("files comp={} large=0 {} {} {} {}", c,
            fspec(b"/usr/bin/tool", 0o755, 13, 'r', s), fspec(b"/etc/tool.conf", 0o644, 0, 'r', s + 1),
            fspec(b"/usr/share/doc/tool/README", 0o644, 4095, 'p', s + 2), fspec(b"/a", 0o600, 5, 'p', s + 3)));
        e.req(&format!("files comp={} large=0 {} {}", c,
            fspec(b"/big/compressible", 0o644, 70000, 'r', s), fspec(b"/big/random", 0o644, 70000, 'p', s)));
        e.req(&format!("files comp={} large=1 {} {} {}", c,
            fspec(b"/l/x", 0o644, 7, 'p', s), fspec(b"/l/y", 0o644, 4096, 'r', s), fspec(b"/l/z", 0o755, 2, 'p', s)));
    }
    // B. single files of every listed size, both content kinds; pairs over all sizes mod 4, standard and large
    for &sz in SIZES.iter() {
        for kind in ['r', 'p'] {
            for c in ["none", "gzip:6", "zstd:3"] {
                e.req(&format!("files comp={} large=0 {}", c, fspec(b"/f", 0o644, sz, kind, sz as u64 + 11)));
            }
            e.req(&format!("files comp=none large=1 {}", fspec(b"/f", 0o644, sz, kind, sz as u64 + 12)));
        }
    }
    for &a in SMALL.iter() {
        for &b in SMALL.iter() {
            for large in [0, 1] {
                e.req(&format!("files comp=none large={} {} {} {}", large,
                    fspec(b"/p/first", 0o644, a, 'p', a as u64), fspec(b"/p/second", 0o755, b, 'p', b as u64 + 100),
                    fspec(b"/p/third", 0o600, 3, 'r', 5)));
            }
        }
    }
    // the large-file switch at its boundary (hook threshold N): combined size N - 1, N, N + 1, for sizes of every class mod 4
    for (a, b) in [(0usize, 0usize), (1, 0), (3, 4), (4, 4), (5, 7), (4095, 1), (4096, 4096)] {
        for d in [-1i64, 0, 1] {
            let n = (a + b) as i64 + d;
            if n < 0 { continue; }
            e.req(&format!("files comp=none large=0 thr={} {} {}", n,
                fspec(b"/t/a", 0o644, a, 'p', a as u64 + 1), fspec(b"/t/b", 0o755, b, 'r', b as u64 + 2)));
        }
    }
    // name lengths: every length mod 4 around short names, and up to the 4096 limit
    for n in 1..=9usize {
        let mut d = b"/".to_vec();
        d.extend(std::iter::repeat(b'n').take(n));
        e.req(&format!("files comp=none large=0 {} {}", fspec(&d, 0o644, 6, 'p', n as u64), fspec(b"/zz", 0o644, 1, 'r', 1)));
    }
    for n in [255usize, 256, 1000, 4000, 4092, 4093, 4094, 4095, 4100] {
        // dest length n => cpio name "." + dest has n + 1 bytes; the reader's limit is name + NUL <= 4096
        let mut d = b"/d/".to_vec();
        while d.len() < n { d.push(b'a' + (d.len() % 26) as u8); }
        e.req(&format!("files comp=gzip:6 large=0 {} {}", fspec(&d, 0o644, 5, 'p', n as u64), fspec(b"/zz", 0o644, 3, 'r', 1)));
    }
    // empty package; './'-style destinations; duplicate destination (first one is kept)
    e.req("files comp=gzip:6 large=0");
    e.req("files comp=none large=1");
    e.req(&format!("files comp=none large=0 {} {}", fspec(b"./rel/b", 0o644, 3, 'r', 1), fspec(b"/rel/a", 0o644, 2, 'r', 2)));
    e.req(&format!("files comp=none large=0 {} {}", fspec(b"/dup", 0o644, 3, 'r', 1), fspec(b"/dup", 0o600, 2, 'r', 2)));
    // destinations that are different strings but EQUAL as `std::path::Path`s (doubled separators, `.` components): the builder
    // keeps them as separate files, so each archive entry must come back under ITS header file (seed C07-7: pairing by
    // `Path` equality hands the second file's bytes out under the first file's metadata)
    for (a, b) in [(&b"/opt/app//conf/settings"[..], &b"/opt/app/conf/settings"[..]), (b"/opt/app/./conf/settings", b"/opt/app/conf/settings"),
                   (b"//opt/x", b"/opt/x"), (b"/srv/d///f", b"/srv/d/f"), (b"/srv/./d/f", b"/srv//d/f")] {
        for c in ["none", "gzip:6"] {
            e.req(&format!("files comp={} large=0 {} {} {}", c, fspec(a, 0o644, 5, 'p', 1), fspec(b, 0o600, 9, 'r', 2), fspec(b"/opt/app/readme", 0o644, 3, 'p', 3)));
            e.req(&format!("files comp={} large=0 {} {}", c, fspec(b, 0o644, 6, 'r', 4), fspec(a, 0o755, 2, 'p', 5)));
        }
    }
    // symbolic-link entries (kind 's') between regular files, empty and non-empty placeholder content
    for c in ["none", "gzip:6", "zstd:3"] {
        e.req(&format!("files comp={} large=0 {} {} {}", c, fspec(b"/usr/bin/awesome", 0o755, 5, 'p', 1),
            fspec(b"/usr/bin/awesome_link", 0o777, 5, 's', 2), fspec(b"/usr/share/z", 0o644, 3, 'r', 3)));
        e.req(&format!("files comp={} large=0 {} {}", c, fspec(b"/l/empty_link", 0o777, 0, 's', 4), fspec(b"/l/real", 0o644, 9, 'p', 5)));
    }
    e.req(&format!("files comp=none large=1 {} {}", fspec(b"/l/link", 0o777, 7, 's', 6), fspec(b"/l/real", 0o644, 9, 'p', 7)));
    // C. random file sets
    let nrand = if thorough { 1500 } else { 110 };
    for _ in 0..nrand {
        let nf = rng.below(9) as usize;
        let comp = rng.pick(&lv).clone();
        let large = if rng.chance(1, 4) { 1 } else { 0 };
        let mut used = Vec::new();
        let mut line = format!("files comp={} large={}", comp, large);
        for _ in 0..nf {
            let d = rand_dest(&mut rng, &mut used);
            let sz = if rng.chance(1, 12) { 70000 } else if rng.chance(1, 6) { *rng.pick(&[4095usize, 4096]) }
                     else if rng.chance(1, 5) { rng.below(300) as usize } else { *rng.pick(&SMALL) };
            let kind = if rng.chance(1, 2) { 'r' } else { 'p' };
            let perm = *rng.pick(&[0o644u32, 0o755, 0o600, 0o4755, 0o444, 0]);
            line.push(' ');
            line.push_str(&fspec(&d, perm, sz, kind, rng.below(1 << 20)));
        }
        e.req(&line);
    }
    if thorough {
        // several MiB, a few: every compressor family and the large-file form
        for (c, large) in [("none", 0), ("gzip:6", 0), ("zstd:3", 0), ("xz:1", 0), ("bzip2:9", 0), ("none", 1), ("zstd:19", 1)] {
            e.req(&format!("files comp={} large={} {} {} {}", c, large,
                fspec(b"/m/a", 0o644, 3 * 1024 * 1024, 'p', 3), fspec(b"/m/b", 0o644, 3 * 1024 * 1024 + 1, 'r', 4),
                fspec(b"/m/c", 0o644, 2, 'p', 5)));
        }
    }

    // D. foreign packages (hand-assembled header + the harness' own cpio writer)
    let nforeign = if thorough { 400 } else { 40 };
    for round in 0..nforeign {
        let nf = 2 + rng.below(3) as usize;
        let mut files: Vec<FFile> = Vec::new();
        for i in 0..nf {
            let dir: &[u8] = if rng.chance(1, 3) { b"/usr/lib/" } else { b"/" };
            let sz = if round % 5 == 4 { *rng.pick(&[4095usize, 4096, 300]) } else { *rng.pick(&SMALL) };
            files.push(FFile {
                dir: dir.to_vec(),
                base: format!("f{}{}", i, ["", "x", "yy", "zzz"][rng.below(4) as usize]).into_bytes(),
                mode: *rng.pick(&[0o100644u16, 0o100755, 0o100600]),
                data: content_of('p', rng.below(1 << 20), sz),
                ghost: false,
            });
        }
        let entry = |magic: &[u8], f: &FFile, ino: usize, extra_nuls: usize| -> Vec<u8> {
            let mut name = f.cpio_name();
            name.extend(std::iter::repeat(0u8).take(1 + extra_nuls));
            let check = if magic == b"070702" { f.data.iter().fold(0u32, |a, b| a.wrapping_add(*b as u32)) } else { 0 };
            cpio_entry(magic, &name, ino as u32 + 1, f.mode as u32, 1, &f.data, check)
        };
        // 1. same order, newc   2. crc magic   3. names padded with extra NULs (dracut style)
        for (magic, nuls) in [(&b"070701"[..], 0usize), (&b"070702"[..], 0), (&b"070701"[..], 1 + rng.below(7) as usize)] {
            let mut ar = Vec::new();
            for (i, f) in files.iter().enumerate() { ar.extend(entry(magic, f, i, nuls)); }
            if nuls == 0 {
                ar.extend(cpio_trailer());
                e.raw(&foreign_pkg(&files, false, &ar));
            } else {
                // the trailer name is padded as well, and the header ends with a %ghost file, so the
                // iterator has to recognise the padded trailer to stop
                let mut tn = b"TRAILER!!!".to_vec();
                tn.extend(std::iter::repeat(0u8).take(1 + nuls));
                ar.extend(cpio_entry(b"070701", &tn, 0, 0, 1, &[], 0));
                let mut fs = files.clone();
                fs.push(FFile { dir: b"/".to_vec(), base: b"zz-ghost".to_vec(), mode: 0o100644, data: vec![], ghost: true });
                e.raw(&foreign_pkg(&fs, false, &ar));
            }
        }
        // 4. one file is a %ghost: listed in the header, absent from the archive
        {
            let g = rng.below(nf as u64) as usize;
            let mut fs = files.clone();
            fs[g].ghost = true;
            let mut ar = Vec::new();
            for (i, f) in fs.iter().enumerate() { if !f.ghost { ar.extend(entry(b"070701", f, i, 0)); } }
            ar.extend(cpio_trailer());
            e.raw(&foreign_pkg(&fs, false, &ar));
        }
        // 5. archive ordered differently from the header (rotation / reversal)
        {
            let mut order: Vec<usize> = (0..nf).collect();
            if rng.chance(1, 2) { order.reverse(); } else { order.rotate_left(1); }
            let mut ar = Vec::new();
            for &i in &order { ar.extend(entry(b"070701", &files[i], i, 0)); }
            ar.extend(cpio_trailer());
            e.raw(&foreign_pkg(&files, false, &ar));
        }
        // 6. stripped entries in header order   7. stripped entries in another order
        for reorder in [false, true] {
            let mut order: Vec<usize> = (0..nf).collect();
            if reorder { order.rotate_left(1); }
            let mut ar = Vec::new();
            for &i in &order { ar.extend(stripped_entry(i as u32, &files[i].data)); }
            ar.extend(if rng.chance(1, 2) { cpio_trailer() } else { stripped_entry(u32::MAX, &[]) });
            e.raw(&foreign_pkg(&files, true, &ar));
        }
        // 8. archive cut inside the data of the last entry (sizes that are / are not multiples of 4)
        {
            let mut fs = files.clone();
            let last = nf - 1;
            let sz = *rng.pick(&[4usize, 8, 5, 6, 12]);
            fs[last].data = content_of('p', round as u64, sz);
            let mut ar = Vec::new();
            for (i, f) in fs.iter().enumerate() { ar.extend(entry(b"070701", f, i, 0)); }
            let cut = 1 + rng.below(sz as u64 + (4 - sz as u64 % 4) % 4 - 1) as usize;
            ar.truncate(ar.len() - cut);
            e.raw(&foreign_pkg(&fs, false, &ar));
        }
        let named = |name: &[u8], f: &FFile, ino: usize| -> Vec<u8> {
            let mut n = name.to_vec();
            n.push(0);
            cpio_entry(b"070701", &n, ino as u32 + 1, f.mode as u32, 1, &f.data, 0)
        };
        // 9. an archive entry that names no file of the header, at any position (also: the right path
        //    without the leading "./", i.e. "f0" for "/f0"; the ghost's name with one letter changed)
        {
            let at = rng.below(nf as u64 + 1) as usize;
            let stray = FFile { dir: b"/".to_vec(), base: b"stray".to_vec(), mode: 0o100644,
                                data: content_of('p', round as u64 + 77, *rng.pick(&SMALL)), ghost: false };
            let name: Vec<u8> = match rng.below(3) {
                0 => b"./stray".to_vec(),
                1 => files[at.min(nf - 1)].cpio_name()[2..].to_vec(),
                _ => { let mut n = files[at.min(nf - 1)].cpio_name(); n.push(b'~'); n }
            };
            let mut ar = Vec::new();
            for (i, f) in files.iter().enumerate() {
                if i == at { ar.extend(named(&name, &stray, 90)); }
                ar.extend(entry(b"070701", f, i, 0));
            }
            if at == nf { ar.extend(named(&name, &stray, 90)); }
            ar.extend(cpio_trailer());
            // with a trailing %ghost file in the header the count guard does not hide a stray last entry
            let mut fs = files.clone();
            fs.push(FFile { dir: b"/".to_vec(), base: b"zz-ghost".to_vec(), mode: 0o100644, data: vec![], ghost: true });
            e.raw(&foreign_pkg(&fs, false, &ar));
        }
        // 10. two archive entries with the same name (same content / different content), header has a %ghost
        //     file so that the count guard lets the iterator reach all of them
        for same in [true, false] {
            let d = rng.below(nf as u64) as usize;
            let mut fs = files.clone();
            fs.push(FFile { dir: b"/".to_vec(), base: b"zz-ghost".to_vec(), mode: 0o100644, data: vec![], ghost: true });
            let mut order: Vec<usize> = (0..nf).collect();
            order.insert(rng.below(nf as u64 + 1) as usize, d);
            let mut seen = false;
            let mut ar = Vec::new();
            for &i in &order {
                let mut f = files[i].clone();
                if i == d && seen && !same { f.data = content_of('p', round as u64 + 5, f.data.len() + 1); }
                if i == d { seen = true; }
                ar.extend(entry(b"070701", &f, i, 0));
            }
            ar.extend(cpio_trailer());
            e.raw(&foreign_pkg(&fs, false, &ar));
        }
        // 11. source-package style: empty directory name, plain entry names (no "./"), one of them starting
        //     with a dot; header order and another order; one file left out
        {
            let mut fs = files.clone();
            for (i, f) in fs.iter_mut().enumerate() {
                f.dir = Vec::new();
                if i == 1 { let mut b = b".".to_vec(); b.extend_from_slice(&f.base); f.base = b; }
            }
            for variant in 0..3 {
                let mut order: Vec<usize> = (0..nf).collect();
                if variant == 1 { order.reverse(); }
                if variant == 2 { order.remove(rng.below(nf as u64) as usize); }
                let mut hs = fs.clone();
                if variant == 2 { for (i, f) in hs.iter_mut().enumerate() { if !order.contains(&i) { f.ghost = true; } } }
                let mut ar = Vec::new();
                for &i in &order { ar.extend(named(&fs[i].base, &fs[i], i)); }
                ar.extend(cpio_trailer());
                e.raw(&foreign_pkg(&hs, false, &ar));
            }
        }
        // 12. stripped entries: one file left out (a %ghost), reversed order; the same index twice
        {
            let g = rng.below(nf as u64) as usize;
            let mut fs = files.clone();
            fs[g].ghost = true;
            let mut ar = Vec::new();
            for i in (0..nf).rev() { if i != g { ar.extend(stripped_entry(i as u32, &files[i].data)); } }
            ar.extend(stripped_entry(u32::MAX, &[]));
            e.raw(&foreign_pkg(&fs, true, &ar));
            let mut fs = files.clone();
            fs.push(FFile { dir: b"/".to_vec(), base: b"zz-ghost".to_vec(), mode: 0o100644, data: vec![], ghost: true });
            let mut ar = Vec::new();
            for i in 0..nf { ar.extend(stripped_entry(i as u32, &files[i].data)); if i == g { ar.extend(stripped_entry(i as u32, &files[i].data)); } }
            ar.extend(cpio_trailer());
            e.raw(&foreign_pkg(&fs, true, &ar));
        }
        // 14. numeric fields in the other spellings `u32::from_str_radix(_, 16)` ACCEPTS (upper-case digits, a leading `+`): the
        //     entries are as good as any; sizes 10..15 and 171 put letters into the filesize field, the modes into c_mode
        for style in [1u8, 2, 3] {
            let mut fs = files.clone();
            for (i, f) in fs.iter_mut().enumerate() { f.data = content_of('p', round as u64 + i as u64, [10usize, 11, 12, 13, 14, 15, 171, 0xabc][rng.below(8) as usize]); }
            let mut ar = Vec::new();
            for (i, f) in fs.iter().enumerate() {
                let mut name = f.cpio_name();
                name.push(0);
                ar.extend(cpio_entry_styled(b"070701", &name, 0xA + i as u32, f.mode as u32, &f.data, 0, style, None));
            }
            ar.extend(cpio_trailer());
            e.raw(&foreign_pkg(&fs, false, &ar));
            // stripped entries with the index spelled that way
            let mut ar = Vec::new();
            for (i, f) in fs.iter().enumerate() { ar.extend(stripped_entry_styled(i as u32, &f.data, style)); }
            ar.extend(stripped_entry(u32::MAX, &[]));
            e.raw(&foreign_pkg(&fs, true, &ar));
        }
        // 15. c_namesize = 00001000 (4096, the reader's limit): a short name padded with NULs up to 4096 bytes, and a real
        //     4095-byte name; 00001001 is the `name too long` junk of 13.
        {
            let mut ar = Vec::new();
            for (i, f) in files.iter().enumerate() {
                let mut name = f.cpio_name();
                if i == 0 { name.resize(4096, 0); } else { name.push(0); }
                ar.extend(cpio_entry(b"070701", &name, i as u32 + 1, f.mode as u32, 1, &f.data, 0));
            }
            ar.extend(cpio_trailer());
            e.raw(&foreign_pkg(&files, false, &ar));
            let mut fs = files.clone();
            fs[0].dir = b"/".to_vec();
            fs[0].base = (0..4093).map(|j| b'a' + (j % 26) as u8).collect();
            let mut ar = Vec::new();
            for (i, f) in fs.iter().enumerate() { ar.extend(entry(b"070701", f, i, 0)); }
            ar.extend(cpio_trailer());
            e.raw(&foreign_pkg(&fs, false, &ar));
        }
        // 16. the cpio header's `filesize` DISAGREES with the size the rpm header records for the file (FILESIZES / digest are those
        //     of the content the package means; the archive entry carries fewer / more bytes and says so in its own header)
        if SIZE_DISAGREE_CASES && round % 4 == 1 {
            for longer in [false, true] {
                let d = rng.below(nf as u64) as usize;
                let mut ar = Vec::new();
                for (i, f) in files.iter().enumerate() {
                    let mut g = f.clone();
                    if i == d {
                        if longer { g.data.extend_from_slice(b"+more"); } else if !g.data.is_empty() { let l = g.data.len(); g.data.truncate(l - 1 - rng.below(l as u64) as usize); } else { g.data = b"x".to_vec(); }
                    }
                    ar.extend(entry(b"070701", &g, i, 0));
                }
                ar.extend(cpio_trailer());
                e.raw(&foreign_pkg(&files, false, &ar));
            }
        }
        // 13. damaged archives (what `all=` is about: the iterator keeps answering after an error item, from wherever the
        //     failed step left the stream): one junk block that makes `Reader::new` fail on a known path — and is exactly
        //     as long as what that path consumes, so the entries behind it are found again —, an unknown entry whose data
        //     is itself an intact entry, and a cut at a random place. Two extra %ghost files in the header keep the
        //     `count` guard open after the error.
        {
            let mut fs = files.clone();
            for g in 0..2 {
                fs.push(FFile { dir: b"/".to_vec(), base: format!("zz-ghost{}", g).into_bytes(), mode: 0o100644, data: vec![], ghost: true });
            }
            let hdr = |namesize: u32, filesize: u32| -> Vec<u8> {
                let mut v = b"070701".to_vec();
                for x in [1u32, 0o100644, 0, 0, 1, 0, filesize, 0, 0, 0, 0, namesize, 0] {
                    v.extend_from_slice(format!("{:08x}", x).as_bytes());
                }
                v
            };
            let k = rng.below(13) as usize;
            let junks: Vec<Vec<u8>> = vec![
                b"07070Y".to_vec(),                                                               // bad magic: 6 bytes
                { let mut v = hdr(2, 0); v.truncate(6 + 8 * k); v.extend_from_slice(b"0000000g"); v }, // bad hex in field k
                hdr(4097, 0),                                                                     // name too long
                hdr(0, 0),                                                                        // name length 0
                { let mut v = hdr(4, 0); v.extend_from_slice(b"abcd"); v },                       // name not NUL-terminated
                { let mut v = hdr(4, 0); v.extend_from_slice(&[0xff, 0xfe, b'a', 0]); v },        // name not UTF-8
                // the same field in spellings `from_str_radix` REFUSES: a sign it does not take, a second sign, a prefix, blanks,
                // a byte that is not UTF-8 (8 bytes each, so the entries behind are found again as for `0000000g`)
                { let mut v = hdr(2, 0); v.truncate(6 + 8 * k); v.extend_from_slice([&b"-0000001"[..], b"+-000001", b"++000001", b"0x000001", b" 0000001", b"0000001 ", b"+       ", b"\xff0000001"][rng.below(8) as usize]); v },
                b"07070X0000000A\0\0".to_vec(),                                                   // stripped index 10 in upper case: beyond the header
                b"07070X-0000001".to_vec(),                                                       // stripped entry, a sign that is refused
                b"07070X0000ffff\0\0".to_vec(),                                                   // stripped index beyond the header
                b"07070X000000zz".to_vec(),                                                       // stripped entry, bad hex
                { let mut v = hdr(4, 0); v.extend_from_slice(b"abcd"); v.push(b'!'); v },         // one byte more than consumed
            ];
            for junk in &junks {
                let at = rng.below(nf as u64 + 1) as usize;
                let mut ar = Vec::new();
                for (i, f) in files.iter().enumerate() {
                    if i == at { ar.extend_from_slice(junk); }
                    ar.extend(entry(b"070701", f, i, 0));
                }
                if at == nf { ar.extend_from_slice(junk); }
                ar.extend(cpio_trailer());
                e.raw(&foreign_pkg(&fs, false, &ar));
            }
            {
                // the data of an entry that names no header file is an intact entry of file 0
                let inner = entry(b"070701", &files[0], 0, 0);
                let stray = FFile { dir: b"/".to_vec(), base: b"stray".to_vec(), mode: 0o100644, data: inner, ghost: false };
                let mut ar = named(b"./stray", &stray, 90);
                for (i, f) in files.iter().enumerate().skip(1) { ar.extend(entry(b"070701", f, i, 0)); }
                ar.extend(cpio_trailer());
                e.raw(&foreign_pkg(&fs, false, &ar));
            }
            for _ in 0..2 {
                let mut ar = Vec::new();
                for (i, f) in files.iter().enumerate() { ar.extend(entry(b"070701", f, i, 0)); }
                ar.extend(cpio_trailer());
                let cut = rng.below(ar.len() as u64) as usize;
                ar.truncate(cut);
                e.raw(&foreign_pkg(&fs, false, &ar));
            }
        }
    }
}
