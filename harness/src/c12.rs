//! C12: extraction recreates the files and never touches anything outside the target.
//!
//! op `extract <package> <archive|-> <dest> <jail>`:
//!   * `<package>`  package bytes (hex or `@path`);
//!   * `<archive>`  the uncompressed cpio archive when the payload is compressed (only the Lean driver
//!                  reads it: it has no decompressors), `-` otherwise;
//!   * `<dest>`     hex of the absolute destination inside the jail (normally `/target`);
//!   * `<jail>`     initial content of the jail, `,`-separated, parents first:
//!                  `d/<hex path>/<octal perm>` | `f/<hex path>/<octal perm>/<hex content|->` | `l/<hex path>/<hex target>`
//!                  (the first entry is the root `d/2f/755`).
//! The real `Package::extract` runs in a forked child that `chroot`s into a freshly created scratch
//! directory under /tmp populated as `<jail>` says, with umask 022. Everything in the jail is
//! snapshotted (lstat: type, permission bits, content / link target) before and after.
//! observation: `<ok|err|panic|crash|jail-err> outside=<none | c:<hex path>,m:…,r:… sorted by path> tree=<- | listing>`
//!   outside = every path that is not the destination or below it and was created / modified / removed;
//!   listing = every path at or below the destination after the run, sorted by path bytes, `,`-separated:
//!             `<hex path>/d/<perm>/-` | `<hex path>/f/<perm>/<fnv64 of content>` | `<hex path>/l/-/<hex target>` | `<hex path>/o/<perm>/-`
//!
//! op `extractmem12 <spec> <package> <archive|-> <dest> <jail> [via=…]`: the same, but `extract` is called on the UN-REPARSED
//! `Package` value `PackageBuilder::build()` returns for `<spec>` = `<comp>;<hex dest>:<octal mode>:<hex content|->:<hex link|->;…`
//! (never written, never parsed). `<package>` = the bytes that value writes (checked: `mem-bytes-differ` otherwise); the driver
//! works on them ("same as parse").
use crate::common::*;
use crate::pkggen::*;
use std::collections::BTreeMap;
use std::ffi::CString;
use std::os::unix::ffi::OsStrExt;
use std::os::unix::fs::{MetadataExt, PermissionsExt};
use std::path::{Path, PathBuf};

// ---------------------------------------------------------------------------------------------
// jail

#[derive(Clone, Debug, PartialEq, Eq)]
pub enum JEnt {
    Dir(u32),
    File(u32, Vec<u8>),
    Link(Vec<u8>),
    Other(u32),
}

pub type Snap = BTreeMap<Vec<u8>, JEnt>;

fn parse_jail(spec: &str) -> Option<Vec<(Vec<u8>, JEnt)>> {
    let mut v = Vec::new();
    for e in spec.split(',') {
        let f: Vec<&str> = e.split('/').collect();
        match (f.first().copied(), f.len()) {
            (Some("d"), 3) => v.push((unhx(f[1]), JEnt::Dir(u32::from_str_radix(f[2], 8).ok()?))),
            (Some("f"), 4) => v.push((unhx(f[1]), JEnt::File(u32::from_str_radix(f[2], 8).ok()?, unhx(f[3])))),
            (Some("l"), 3) => v.push((unhx(f[1]), JEnt::Link(unhx(f[2])))),
            _ => return None,
        }
    }
    if v.first().map(|e| e.0.as_slice()) != Some(b"/") {
        return None;
    }
    Some(v)
}

pub fn jail_spec(ents: &[(Vec<u8>, JEnt)]) -> String {
    ents.iter()
        .map(|(p, e)| match e {
            JEnt::Dir(m) => format!("d/{}/{:o}", hx(p), m),
            JEnt::File(m, c) => format!("f/{}/{:o}/{}", hx(p), m, hx(c)),
            JEnt::Link(t) => format!("l/{}/{}", hx(p), hx(t)),
            JEnt::Other(m) => format!("o/{}/{:o}", hx(p), m),
        })
        .collect::<Vec<_>>()
        .join(",")
}

fn host_path(root: &Path, p: &[u8]) -> PathBuf {
    let rel: &[u8] = p.strip_prefix(b"/").unwrap_or(p);
    if rel.is_empty() { root.to_path_buf() } else { root.join(std::ffi::OsStr::from_bytes(rel)) }
}

static JAIL_SEQ: std::sync::atomic::AtomicU64 = std::sync::atomic::AtomicU64::new(0);

fn make_jail(ents: &[(Vec<u8>, JEnt)]) -> std::io::Result<PathBuf> {
    let n = JAIL_SEQ.fetch_add(1, std::sync::atomic::Ordering::Relaxed);
    let root = PathBuf::from(format!("/tmp/rpmverif-c12-jail-{}-{}", std::process::id(), n));
    let _ = std::fs::remove_dir_all(&root);
    for (p, e) in ents {
        let hp = host_path(&root, p);
        match e {
            JEnt::Dir(_) => std::fs::create_dir(&hp)?,
            JEnt::File(_, c) => std::fs::write(&hp, c)?,
            JEnt::Link(t) => std::os::unix::fs::symlink(std::ffi::OsStr::from_bytes(t), &hp)?,
            JEnt::Other(_) => {}
        }
    }
    // modes last (and children before parents) so that a restrictive mode cannot get in the way
    for (p, e) in ents.iter().rev() {
        let hp = host_path(&root, p);
        match e {
            JEnt::Dir(m) | JEnt::File(m, _) => std::fs::set_permissions(&hp, std::fs::Permissions::from_mode(*m))?,
            _ => {}
        }
    }
    Ok(root)
}

fn snap_rec(host: &Path, jp: &[u8], out: &mut Snap) {
    let md = match std::fs::symlink_metadata(host) {
        Ok(m) => m,
        Err(_) => return,
    };
    let ft = md.file_type();
    let perm = md.mode() & 0o7777;
    if ft.is_symlink() {
        let t = std::fs::read_link(host).map(|t| t.as_os_str().as_bytes().to_vec()).unwrap_or_default();
        out.insert(jp.to_vec(), JEnt::Link(t));
    } else if ft.is_dir() {
        out.insert(jp.to_vec(), JEnt::Dir(perm));
        let mut names: Vec<_> = std::fs::read_dir(host).map(|d| d.filter_map(|e| e.ok()).map(|e| e.file_name()).collect()).unwrap_or_default();
        names.sort();
        for n in names {
            let mut cp = jp.to_vec();
            if cp.last() != Some(&b'/') {
                cp.push(b'/');
            }
            cp.extend_from_slice(n.as_bytes());
            snap_rec(&host.join(&n), &cp, out);
        }
    } else if ft.is_file() {
        out.insert(jp.to_vec(), JEnt::File(perm, std::fs::read(host).unwrap_or_default()));
    } else {
        out.insert(jp.to_vec(), JEnt::Other(perm));
    }
}

fn snapshot(root: &Path) -> Snap {
    let mut s = Snap::new();
    snap_rec(root, b"/", &mut s);
    s
}

fn at_or_below(p: &[u8], dest: &[u8]) -> bool {
    p == dest || (p.len() > dest.len() && p.starts_with(dest) && (dest == b"/" || p[dest.len()] == b'/'))
}

fn outside_diff(before: &Snap, after: &Snap, dest: &[u8]) -> String {
    let mut keys: Vec<&Vec<u8>> = before.keys().chain(after.keys()).collect();
    keys.sort();
    keys.dedup();
    let mut v = Vec::new();
    for k in keys {
        if at_or_below(k, dest) {
            continue;
        }
        match (before.get(k), after.get(k)) {
            (None, Some(_)) => v.push(format!("c:{}", hx(k))),
            (Some(_), None) => v.push(format!("r:{}", hx(k))),
            (Some(a), Some(b)) if a != b => v.push(format!("m:{}", hx(k))),
            _ => {}
        }
    }
    if v.is_empty() { "none".into() } else { v.join(",") }
}

fn tree_listing(after: &Snap, dest: &[u8]) -> String {
    let v: Vec<String> = after
        .iter()
        .filter(|(k, _)| at_or_below(k, dest))
        .map(|(k, e)| match e {
            JEnt::Dir(m) => format!("{}/d/{:o}/-", hx(k), m),
            JEnt::File(m, c) => format!("{}/f/{:o}/{:016x}", hx(k), m, fnv(c)),
            JEnt::Link(t) => format!("{}/l/-/{}", hx(k), hx(t)),
            JEnt::Other(m) => format!("{}/o/{:o}/-", hx(k), m),
        })
        .collect();
    if v.is_empty() { "-".into() } else { v.join(",") }
}

/// run `pkg.extract(dest)` chrooted into `root` in a forked child; returns ok / err / panic / crash
fn extract_in_jail(pkg: &rpm::Package, root: &Path, dest: &[u8], via: &str) -> &'static str {
    let croot = CString::new(root.as_os_str().as_bytes()).unwrap();
    let cslash = CString::new("/").unwrap();
    let cnull = CString::new("/dev/null").unwrap();
    // how the caller SPELLS the destination (the directory meant is always `dest`, the process sits in "/"):
    //   abs     /target            rel    target             dotdot  /work/../target
    //   link    /work/zzroot/target   (the jail holds the symbolic link /work/zzroot -> /)
    let spelled: Vec<u8> = match via {
        "rel" => dest[1..].to_vec(),
        "dotdot" => [b"/work/..".as_slice(), dest].concat(),
        "link" => [b"/work/zzroot".as_slice(), dest].concat(),
        _ => dest.to_vec(),
    };
    let dest_path = PathBuf::from(std::ffi::OsStr::from_bytes(&spelled));
    let mut fds = [0 as libc::c_int; 2];
    unsafe {
        if libc::pipe(fds.as_mut_ptr()) != 0 {
            return "crash";
        }
        let pid = libc::fork();
        if pid < 0 {
            libc::close(fds[0]);
            libc::close(fds[1]);
            return "crash";
        }
        if pid == 0 {
            // child: nothing of the parent's buffered output may be flushed here -> _exit only
            libc::close(fds[0]);
            let dn = libc::open(cnull.as_ptr(), libc::O_WRONLY);
            if dn >= 0 {
                libc::dup2(dn, 1);
                libc::dup2(dn, 2);
            }
            libc::umask(0o022);
            let mut code: u8 = b'x';
            if libc::chroot(croot.as_ptr()) == 0 && libc::chdir(cslash.as_ptr()) == 0 {
                let r = std::panic::catch_unwind(std::panic::AssertUnwindSafe(|| pkg.extract(&dest_path)));
                code = match r {
                    Ok(Ok(())) => b'o',
                    Ok(Err(_)) => b'e',
                    Err(_) => b'p',
                };
            }
            libc::write(fds[1], &code as *const u8 as *const libc::c_void, 1);
            libc::_exit(0);
        }
        libc::close(fds[1]);
        let mut code: u8 = 0;
        let n = libc::read(fds[0], &mut code as *mut u8 as *mut libc::c_void, 1);
        libc::close(fds[0]);
        let mut status: libc::c_int = 0;
        libc::waitpid(pid, &mut status, 0);
        if n != 1 {
            return "crash";
        }
        match code {
            b'o' => "ok",
            b'e' => "err",
            b'p' => "panic",
            // chroot / chdir refused (not root): an environment problem, not an observation of the code
            b'x' => "jail-err",
            _ => "crash",
        }
    }
}

fn observe(pkg_bytes: &[u8], dest: &[u8], jail: &[(Vec<u8>, JEnt)], via: &str) -> String {
    let pkg = match rpm::Package::parse(&mut &pkg_bytes[..]) {
        Ok(p) => p,
        Err(_) => return "parse-err".into(),
    };
    observe_pkg(&pkg, dest, jail, via)
}

/// `<comp>;<hex dest>:<octal mode>:<hex content|->:<hex link|->;…`
pub fn mem_spec(files: &[BFile], comp: &str) -> String {
    let mut s = comp.to_string();
    for f in files {
        s.push_str(&format!(";{}:{:o}:{}:{}", hx(f.dest.as_bytes()), f.mode, hx(&f.content), hx(f.link.as_bytes())));
    }
    s
}

fn comp_of(name: &str) -> Option<rpm::CompressionType> {
    Some(match name {
        "none" => rpm::CompressionType::None,
        "gzip" => rpm::CompressionType::Gzip,
        "zstd" => rpm::CompressionType::Zstd,
        "xz" => rpm::CompressionType::Xz,
        "bzip2" => rpm::CompressionType::Bzip2,
        _ => return None,
    })
}

fn parse_mem_spec(spec: &str) -> Option<(Vec<BFile>, rpm::CompressionType)> {
    let mut it = spec.split(';');
    let comp = comp_of(it.next()?)?;
    let mut files = Vec::new();
    for t in it {
        let p: Vec<&str> = t.split(':').collect();
        if p.len() != 4 { return None; }
        files.push(BFile {
            dest: String::from_utf8(unhx(p[0])).ok()?,
            mode: u16::from_str_radix(p[1], 8).ok()?,
            content: unhx(p[2]),
            link: String::from_utf8(unhx(p[3])).ok()?,
        });
    }
    Some((files, comp))
}

/// the un-reparsed value: built here from the spec, extracted as it is
fn observe_mem(spec: &str, pkg_bytes: &[u8], dest: &[u8], jail: &[(Vec<u8>, JEnt)], via: &str) -> String {
    let (files, comp) = match parse_mem_spec(spec) {
        Some(x) => x,
        None => return "bad-request".into(),
    };
    let mut src = SrcDir::new_tagged("m");
    let pkg = match build_value(&mut src, &files, comp) {
        Some(p) => p,
        None => return "build-err".into(),
    };
    let mut w = Vec::new();
    if pkg.write(&mut w).is_err() || w != pkg_bytes {
        return "mem-bytes-differ".into();
    }
    observe_pkg(&pkg, dest, jail, via)
}

fn observe_pkg(pkg: &rpm::Package, dest: &[u8], jail: &[(Vec<u8>, JEnt)], via: &str) -> String {
    if !dest.starts_with(b"/") {
        return "bad-request".into();
    }
    let root = match make_jail(jail) {
        Ok(r) => r,
        Err(_) => return "jail-err".into(),
    };
    let before = snapshot(&root);
    let out = extract_in_jail(pkg, &root, dest, via);
    let after = snapshot(&root);
    // restore permissions so that removal cannot fail, then remove the jail
    for (p, e) in &after {
        if let JEnt::Dir(_) = e {
            let _ = std::fs::set_permissions(host_path(&root, p), std::fs::Permissions::from_mode(0o755));
        }
    }
    let _ = std::fs::remove_dir_all(&root);
    format!("{} outside={} tree={}", out, outside_diff(&before, &after, dest), tree_listing(&after, dest))
}

pub fn eval(op: &str, a: &[&str]) -> Option<String> {
    match op {
        "extract" => {
            if a.len() != 4 && a.len() != 5 {
                return Some("bad-request".into());
            }
            let via = match a.get(4) {
                None => "abs",
                Some(v) => match v.strip_prefix("via=") {
                    Some(x) if ["abs", "rel", "dotdot", "link"].contains(&x) => x,
                    _ => return Some("bad-request".into()),
                },
            };
            let jail = match parse_jail(a[3]) {
                Some(j) => j,
                None => return Some("bad-request".into()),
            };
            Some(observe(&arg_bytes(a[0]), &unhx(a[2]), &jail, via))
        }
        "extractmem12" => {
            if a.len() != 5 && a.len() != 6 {
                return Some("bad-request".into());
            }
            let via = match a.get(5) {
                None => "abs",
                Some(v) => match v.strip_prefix("via=") {
                    Some(x) if ["abs", "rel", "dotdot", "link"].contains(&x) => x,
                    _ => return Some("bad-request".into()),
                },
            };
            let jail = match parse_jail(a[4]) {
                Some(j) => j,
                None => return Some("bad-request".into()),
            };
            Some(observe_mem(a[0], &arg_bytes(a[1]), &unhx(a[3]), &jail, via))
        }
        _ => None,
    }
}

// ---------------------------------------------------------------------------------------------
// generators

fn b(s: &str) -> Vec<u8> {
    s.as_bytes().to_vec()
}

/// the standard jail: decoys of every kind outside `/target`
pub fn std_jail() -> Vec<(Vec<u8>, JEnt)> {
    vec![
        (b("/"), JEnt::Dir(0o755)),
        (b("/decoy"), JEnt::Dir(0o755)),
        (b("/decoy/file"), JEnt::File(0o644, b("decoy-content\n"))),
        (b("/decoy/dir"), JEnt::Dir(0o750)),
        (b("/decoy/dir/inner"), JEnt::File(0o600, b("inner\n"))),
        (b("/decoy/lnk"), JEnt::Link(b("file"))),
        (b("/etc"), JEnt::Dir(0o755)),
        (b("/etc/passwd"), JEnt::File(0o644, b("root:x:0:0:root:/root:/bin/sh\n"))),
        (b("/target.txt"), JEnt::File(0o644, b("sibling\n"))),
        (b("/targetx"), JEnt::Dir(0o700)),
        (b("/work"), JEnt::Dir(0o755)),
    ]
}

pub fn request(pkg: &[u8], archive: Option<&[u8]>, dest: &str, jail: &[(Vec<u8>, JEnt)]) -> String {
    format!("extract {} {} {} {}", hx(pkg), archive.map(hx).unwrap_or_else(|| "-".into()), hx(dest.as_bytes()), jail_spec(jail))
}

// ---- (1) packages made by the real builder ---------------------------------------------------

#[derive(Clone, Debug)]
pub struct BFile {
    pub dest: String,
    pub mode: u16, // full mode incl. type bits
    pub content: Vec<u8>,
    pub link: String,
}

pub struct SrcDir {
    dir: PathBuf,
    n: u64,
}
impl SrcDir {
    pub fn new() -> Self {
        Self::new_tagged("")
    }
    /// a second scratch directory (the generator's own one stays untouched while a request is evaluated)
    pub fn new_tagged(tag: &str) -> Self {
        static N: std::sync::atomic::AtomicU64 = std::sync::atomic::AtomicU64::new(0);
        let dir = if tag.is_empty() {
            PathBuf::from(format!("/tmp/rpmverif-c12-src-{}", std::process::id()))
        } else {
            PathBuf::from(format!("/tmp/rpmverif-c12-src-{}-{}{}", std::process::id(), tag, N.fetch_add(1, std::sync::atomic::Ordering::Relaxed)))
        };
        let _ = std::fs::create_dir_all(&dir);
        SrcDir { dir, n: 0 }
    }
    fn file(&mut self, content: &[u8]) -> PathBuf {
        self.n += 1;
        let p = self.dir.join(format!("s{}", self.n % 64));
        std::fs::write(&p, content).expect("write source file");
        p
    }
}
impl Drop for SrcDir {
    fn drop(&mut self) {
        let _ = std::fs::remove_dir_all(&self.dir);
    }
}

pub fn build_pkg(src: &mut SrcDir, files: &[BFile], comp: rpm::CompressionType) -> Option<Vec<u8>> {
    let pkg = build_value(src, files, comp)?;
    let mut v = Vec::new();
    pkg.write(&mut v).ok()?;
    Some(v)
}

/// the `Package` value `build()` returns
pub fn build_value(src: &mut SrcDir, files: &[BFile], comp: rpm::CompressionType) -> Option<rpm::Package> {
    let mut bld = rpm::PackageBuilder::new("c12", "1.0.0", "MIT", "noarch", "extraction test")
        .compression(comp)
        .source_date(1_600_000_000u32);
    for f in files {
        let s = src.file(&f.content);
        let mut o = rpm::FileOptions::new(f.dest.clone()).mode(rpm::FileMode::from(f.mode));
        if !f.link.is_empty() {
            o = o.symlink(f.link.clone());
        }
        bld = bld.with_file(&s, o).ok()?;
    }
    bld.build().ok()
}

/// `extractmem12` request for the same files
pub fn request_mem(files: &[BFile], comp: &str, pkg: &[u8], archive: Option<&[u8]>, dest: &str, jail: &[(Vec<u8>, JEnt)]) -> String {
    format!("extractmem12 {} {} {} {} {}", mem_spec(files, comp), hx(pkg), archive.map(hx).unwrap_or_else(|| "-".into()), hx(dest.as_bytes()), jail_spec(jail))
}

const REG: u16 = 0o100000;
const DIR: u16 = 0o040000;
const LNK: u16 = 0o120000;

fn reg(dest: &str, perm: u16, content: &[u8]) -> BFile {
    BFile { dest: dest.into(), mode: REG | perm, content: content.to_vec(), link: String::new() }
}
fn dir(dest: &str, perm: u16) -> BFile {
    BFile { dest: dest.into(), mode: DIR | perm, content: vec![], link: String::new() }
}
fn lnk(dest: &str, target: &str) -> BFile {
    BFile { dest: dest.into(), mode: LNK | 0o777, content: vec![], link: target.into() }
}

const NAMES: [&str; 12] = ["a", "b", "usr", "bin", "etc", "lib64", "x y", "é", "f.txt", ".hidden", "..x", "A"];
const LINK_TARGETS: [&str; 10] = ["f", "../f", "/decoy/file", "/decoy", "/etc/passwd", "../../decoy/dir", "nowhere/at/all", "/", ".", "a/b/"];

/// a random well-behaved file set: no path at or below a file or link, no `..`
fn rand_benign(rng: &mut Rng) -> Vec<BFile> {
    let n = 1 + rng.below(7) as usize;
    let mut out: Vec<BFile> = Vec::new();
    let mut dirs: Vec<String> = vec![String::new()]; // "" = root
    let mut taken: Vec<String> = Vec::new();
    for _ in 0..n {
        // choose a directory: an existing one or a new one below an existing one
        let mut d = rng.pick(&dirs).clone();
        let depth = rng.below(3);
        for _ in 0..depth {
            let c = format!("{}/{}", d, *rng.pick(&NAMES[..]));
            if taken.contains(&c) {
                break;
            }
            d = c;
            if !dirs.contains(&d) {
                dirs.push(d.clone());
            }
        }
        let path = format!("{}/{}", d, *rng.pick(&NAMES[..]));
        if taken.contains(&path) || dirs.contains(&path) {
            continue;
        }
        let perm = match rng.below(4) {
            0 => 1u16 << rng.below(12),
            1 => *rng.pick(&[0o644u16, 0o755, 0o600, 0o444, 0, 0o7777, 0o4755, 0o2755, 0o1777]),
            _ => rng.below(4096) as u16,
        };
        match rng.below(6) {
            0 => {
                // explicit directory entry (files may later go below it)
                out.push(dir(&path, perm));
                dirs.push(path.clone());
            }
            1 => {
                out.push(lnk(&path, *rng.pick(&LINK_TARGETS[..])));
                taken.push(path);
            }
            _ => {
                let len = *rng.pick(&[0usize, 1, 3, 4, 5, 17, 64]);
                out.push(reg(&path, perm, &rng.bytes(len)));
                taken.push(path);
            }
        }
    }
    out
}

// ---- (2) hand-encoded packages ----------------------------------------------------------------

#[derive(Clone, Debug)]
pub struct HFile {
    pub dir_index: u32,
    pub base: Vec<u8>,
    pub mode: u16,
    pub linkto: Vec<u8>,
    pub content: Vec<u8>,
}

#[derive(Clone, Debug, Default)]
pub struct HSpec {
    pub dirnames: Vec<Vec<u8>>,
    pub files: Vec<HFile>,
    /// tags left out of the header
    pub omit: Vec<u32>,
    /// cut the payload to this many bytes
    pub payload_cut: Option<usize>,
    /// RPMTAG_PAYLOADCOMPRESSOR value (None = tag absent)
    pub compressor: Option<Vec<u8>>,
    /// digest strings (default: empty)
    pub digests: Option<Vec<Vec<u8>>>,
    /// drop the last element of the FILEMODES array (arrays of different lengths)
    pub short_modes: bool,
    /// archive entries are newc entries named after the header path ("." + path, or the plain path when it
    /// is relative) and `files()` looks the file up by name; default: stripped entries (`07070X` + file
    /// index), so that entry i belongs to header file i whatever the paths are (duplicates included)
    pub named: bool,
    /// RPMTAG_FILEDIGESTALGO (5011) as an INT32 value (None = tag absent: the code falls back to MD5)
    pub digest_algo: Option<u32>,
    /// RPMTAG_FILEDIGESTALGO stored with the wrong data type (a STRING): the getter fails, MD5 again
    pub digest_algo_as_string: bool,
    /// NUL bytes appended to the name of every named (newc) entry, counted in its `namesize`: the reader
    /// strips them, so the entry still names its file — up to the name-length limit of `Reader::new`
    pub name_pad: usize,
    /// RPMTAG_LONGFILESIZES (5008, INT64) with these values in ADDITION to FILESIZES: `get_file_entries` prefers it, and a
    /// stripped entry's data length is taken from it — a lying, huge size over a short archive must end in an error
    /// (seed C12-9: the content buffer pre-allocated with the header's size panics with "capacity overflow")
    pub long_sizes: Option<Vec<u64>>,
}

pub fn stripped_entry(idx: u32, data: &[u8]) -> Vec<u8> {
    let mut v = b"07070X".to_vec();
    v.extend_from_slice(format!("{:08x}", idx).as_bytes());
    v.extend_from_slice(&[0, 0]);
    v.extend_from_slice(data);
    while v.len() % 4 != 0 {
        v.push(0);
    }
    v
}

/// the name `files()` resolves to header file `f`: `get_file_paths` joins directory and base name
fn entry_name(s: &HSpec, f: &HFile, i: usize) -> Vec<u8> {
    use std::os::unix::ffi::OsStrExt;
    match s.dirnames.get(f.dir_index as usize) {
        Some(d) => {
            let p = std::path::Path::new(std::ffi::OsStr::from_bytes(d)).join(std::ffi::OsStr::from_bytes(&f.base));
            let p = p.as_os_str().as_bytes();
            if p.starts_with(b"/") { [&b"."[..], p].concat() } else { p.to_vec() }
        }
        None => format!("./f{}", i).into_bytes(),
    }
}

pub fn cpio_entry(name: &[u8], mode: u32, data: &[u8]) -> Vec<u8> {
    cpio_entry_padded(name, 0, mode, data)
}

/// a newc entry whose name field is `name`, `name_pad` extra NUL bytes, and the terminating NUL
pub fn cpio_entry_padded(name: &[u8], name_pad: usize, mode: u32, data: &[u8]) -> Vec<u8> {
    let mut v = Vec::new();
    v.extend_from_slice(b"070701");
    let namesize = (name.len() + name_pad) as u32 + 1;
    for f in [1u32, mode, 0, 0, 1, 0, data.len() as u32, 0, 0, 0, 0, namesize, 0] {
        v.extend_from_slice(format!("{:08x}", f).as_bytes());
    }
    v.extend_from_slice(name);
    v.extend(std::iter::repeat(0u8).take(name_pad));
    v.push(0);
    while v.len() % 4 != 0 {
        v.push(0);
    }
    v.extend_from_slice(data);
    while v.len() % 4 != 0 {
        v.push(0);
    }
    v
}

pub fn hostile_pkg(s: &HSpec) -> Vec<u8> {
    let n = s.files.len();
    let mut h = GHeader::new();
    let strs = |f: &dyn Fn(&HFile) -> Vec<u8>| TData::Strs(s.files.iter().map(|x| f(x)).collect());
    let mut modes: Vec<u16> = s.files.iter().map(|f| f.mode).collect();
    if s.short_modes {
        modes.pop();
    }
    let tags: Vec<(u32, u32, TData)> = vec![
        (1000, 6, TData::Str(b("hostile"))),
        (1028, 4, TData::U32(s.files.iter().map(|f| f.content.len() as u32).collect())),
        (1030, 3, TData::U16(modes)),
        (1034, 4, TData::U32(vec![0; n])),
        (1035, 8, s.digests.clone().map(TData::Strs).unwrap_or_else(|| TData::Strs(vec![vec![]; n]))),
        (1036, 8, strs(&|f| f.linkto.clone())),
        (1037, 4, TData::U32(vec![0; n])),
        (1039, 8, TData::Strs(vec![b("root"); n])),
        (1040, 8, TData::Strs(vec![b("root"); n])),
        (1116, 4, TData::U32(s.files.iter().map(|f| f.dir_index).collect())),
        (1117, 8, strs(&|f| f.base.clone())),
        (1118, 8, TData::Strs(s.dirnames.clone())),
    ];
    for (tag, ty, d) in tags {
        if !s.omit.contains(&tag) {
            h.push(tag, ty, &d);
        }
    }
    if let Some(c) = &s.compressor {
        h.push(1125, 6, &TData::Str(c.clone()));
    }
    if let Some(ls) = &s.long_sizes {
        h.push(5008, 5, &TData::U64(ls.clone()));
    }
    if let Some(a) = s.digest_algo {
        if s.digest_algo_as_string {
            h.push(5011, 6, &TData::Str(a.to_string().into_bytes()));
        } else {
            h.push(5011, 4, &TData::U32(vec![a]));
        }
    }
    let mut payload = Vec::new();
    for (i, f) in s.files.iter().enumerate() {
        if s.named {
            payload.extend(cpio_entry_padded(&entry_name(s, f, i), s.name_pad, f.mode as u32, &f.content));
        } else {
            payload.extend(stripped_entry(i as u32, &f.content));
        }
    }
    payload.extend(cpio_entry(b"TRAILER!!!", 0, &[]));
    if let Some(k) = s.payload_cut {
        payload.truncate(k.min(payload.len()));
    }
    let lead = gen_lead(&mut Rng::new(1), false);
    assemble(&lead, &GHeader::new(), 0, &h, &payload)
}

fn hf(dir_index: u32, base: &str, mode: u16, linkto: &str, content: &str) -> HFile {
    HFile { dir_index, base: b(base), mode, linkto: b(linkto), content: b(content) }
}
fn hs(dirnames: &[&str], files: Vec<HFile>) -> HSpec {
    HSpec { dirnames: dirnames.iter().map(|d| b(d)).collect(), files, ..Default::default() }
}

/// the hostile families of the quantifier text, each with a few concrete members
pub fn hostile_families() -> Vec<(&'static str, HSpec)> {
    let r = REG | 0o644;
    let mut v: Vec<(&'static str, HSpec)> = vec![
        // '..' in a directory name
        ("dotdot-dir-new", hs(&["/../decoy/"], vec![hf(0, "new", r, "", "pwned")])),
        ("dotdot-dir-overwrite", hs(&["/../decoy/"], vec![hf(0, "file", REG | 0o600, "", "pwned")])),
        ("dotdot-dir-only", hs(&["/a/../../created-outside/"], vec![])),
        ("dotdot-dir-inside", hs(&["/a/b/../"], vec![hf(0, "f", r, "", "x")])),
        ("dotdot-dir-deep", hs(&["/../../../../etc/"], vec![hf(0, "passwd", r, "", "evil")])),
        // '..' in a base name
        ("dotdot-base", hs(&["/"], vec![hf(0, "../decoy/file", r, "", "pwned")])),
        ("dotdot-base2", hs(&["/a/"], vec![hf(0, "../../decoy/file", r, "", "pwned")])),
        ("dotdot-base-only", hs(&["/"], vec![hf(0, "..", r, "", "x")])),
        ("dotdot-base-dir", hs(&["/"], vec![hf(0, "..", DIR | 0o700, "", "")])),
        ("dotdot-base-dirnew", hs(&["/"], vec![hf(0, "../made/sub", DIR | 0o700, "", "")])),
        ("dotdot-base-symlink", hs(&["/"], vec![hf(0, "../decoy/lnk", LNK | 0o777, "/etc/passwd", "")])),
        ("dotdot-base-symlink-new", hs(&["/"], vec![hf(0, "../newlink", LNK | 0o777, "target", "")])),
        ("dotdot-base-inside", hs(&["/a/", "/b/"], vec![hf(0, "../b/f", r, "", "x")])),
        ("dot-base", hs(&["/a/"], vec![hf(0, ".", r, "", "x")])),
        // sizes that lie: 64-bit sizes far beyond the archive (stripped entries take their data length from the header)
        ("longsize-max", HSpec { long_sizes: Some(vec![u64::MAX]), ..hs(&["/a/"], vec![hf(0, "f", r, "", "short")]) }),
        ("longsize-2p63", HSpec { long_sizes: Some(vec![1u64 << 63, 5]), ..hs(&["/a/"], vec![hf(0, "f", r, "", "short"), hf(0, "g", r, "", "12345")]) }),
        ("longsize-2p40-second", HSpec { long_sizes: Some(vec![5, 1u64 << 40]), ..hs(&["/a/"], vec![hf(0, "f", r, "", "short"), hf(0, "g", r, "", "12345")]) }),
        ("longsize-isize-max", HSpec { long_sizes: Some(vec![(1u64 << 63) - 1]), ..hs(&["/a/"], vec![hf(0, "f", r, "", "x")]) }),
        ("longsize-true", HSpec { long_sizes: Some(vec![5, 5]), ..hs(&["/a/"], vec![hf(0, "f", r, "", "short"), hf(0, "g", r, "", "12345")]) }),
        // relative directory names (the way source packages record their files) with a symbolic link FIRST in the archive
        // (seed C12-10: a directory in the way of a link removed with remove_dir — the still empty target itself)
        ("rel-link-first", HSpec { named: true, ..hs(&["aasrc/", "/"], vec![hf(0, "l", LNK | 0o777, "/decoy", ""), hf(1, "zz-planted.txt", r, "", "planted")]) }),
        ("rel-link-first-stripped", hs(&["aasrc/", "/"], vec![hf(0, "l", LNK | 0o777, "/decoy", ""), hf(1, "zz-planted.txt", r, "", "planted")])),
        ("rel-link-plain", HSpec { named: true, ..hs(&["", "/"], vec![hf(0, "l", LNK | 0o777, "/decoy", ""), hf(1, "zz", r, "", "planted")]) }),
        ("rel-link-dir-in-way", HSpec { named: true, ..hs(&["/", "/d/"], vec![hf(0, "d", LNK | 0o777, "/decoy", ""), hf(0, "zz", r, "", "planted")]) }),
        ("rel-link-to-rel-outside", HSpec { named: true, ..hs(&["x/", "/"], vec![hf(0, "l", LNK | 0o777, "../decoy", ""), hf(1, "l2", r, "", "planted")]) }),
        // absolute base name (Path::join replaces the directory)
        ("abs-base", hs(&["/usr/"], vec![hf(0, "/decoy/file", r, "", "contained")])),
        ("abs-base-dotdot", hs(&["/usr/"], vec![hf(0, "/../decoy/file", r, "", "pwned")])),
        // duplicate paths
        ("dup-file-file", hs(&["/"], vec![hf(0, "f", REG | 0o600, "", "one"), hf(0, "f", REG | 0o4755, "", "second")])),
        ("dup-file-dir", hs(&["/"], vec![hf(0, "f", r, "", "one"), hf(0, "f", DIR | 0o755, "", "")])),
        ("dup-dir-file", hs(&["/"], vec![hf(0, "f", DIR | 0o755, "", ""), hf(0, "f", r, "", "one")])),
        ("dup-dir-dir", hs(&["/"], vec![hf(0, "d", DIR | 0o700, "", ""), hf(0, "d", DIR | 0o2755, "", "")])),
        ("dup-file-link", hs(&["/"], vec![hf(0, "f", r, "", "one"), hf(0, "f", LNK | 0o777, "elsewhere", "")])),
        ("dup-link-link", hs(&["/"], vec![hf(0, "l", LNK | 0o777, "/decoy", ""), hf(0, "l", LNK | 0o777, "other", "")])),
        ("dup-dir-link", hs(&["/"], vec![hf(0, "d", DIR | 0o755, "", ""), hf(0, "d", LNK | 0o777, "/decoy", "")])),
        ("dup-via-slashes", hs(&["/a/", "/a//", "/./a/"], vec![hf(0, "f", r, "", "1"), hf(1, "f", r, "", "22"), hf(2, "f", REG | 0o600, "", "333")])),
        // a symbolic link followed by a file of the same path or below it
        ("link-then-below-abs", hs(&["/", "/link/"], vec![hf(0, "link", LNK | 0o777, "/decoy", ""), hf(1, "file", r, "", "pwned")])),
        ("link-then-below-new", hs(&["/"], vec![hf(0, "link", LNK | 0o777, "/decoy", ""), hf(0, "link/new", r, "", "pwned")])),
        ("link-then-below-rel", hs(&["/"], vec![hf(0, "link", LNK | 0o777, "../decoy", ""), hf(0, "link/file", REG | 0o4755, "", "pwned")])),
        ("link-then-same-file", hs(&["/"], vec![hf(0, "l", LNK | 0o777, "/decoy/file", ""), hf(0, "l", REG | 0o666, "", "pwned")])),
        ("link-then-same-dangling", hs(&["/"], vec![hf(0, "l", LNK | 0o777, "/decoy/created", ""), hf(0, "l", r, "", "pwned")])),
        ("link-then-same-dir-chmod", hs(&["/"], vec![hf(0, "l", LNK | 0o777, "/decoy/dir", ""), hf(0, "l", DIR | 0o777, "", "")])),
        ("link-then-same-dir-err", hs(&["/"], vec![hf(0, "l", LNK | 0o777, "/decoy/file", ""), hf(0, "l", DIR | 0o777, "", "")])),
        ("link-then-dir-below", hs(&["/"], vec![hf(0, "l", LNK | 0o777, "/decoy", ""), hf(0, "l/newdir/sub", DIR | 0o755, "", "")])),
        ("link-then-link-below", hs(&["/"], vec![hf(0, "l", LNK | 0o777, "/decoy", ""), hf(0, "l/lnk", LNK | 0o777, "replaced", "")])),
        ("link-dir-precreated", hs(&["/", "/d/sub/"], vec![hf(0, "d", LNK | 0o777, "/decoy", ""), hf(1, "f", r, "", "x")])),
        ("link-inside-then-below", hs(&["/", "/real/"], vec![hf(1, "keep", r, "", "k"), hf(0, "l", LNK | 0o777, "real", ""), hf(0, "l/f", r, "", "through")])),
        ("link-loop", hs(&["/"], vec![hf(0, "a", LNK | 0o777, "b", ""), hf(0, "b", LNK | 0o777, "a", ""), hf(0, "a", r, "", "x")])),
        ("link-self-dir", hs(&["/"], vec![hf(0, "s", LNK | 0o777, ".", ""), hf(0, "s/s/s/f", r, "", "x")])),
        ("link-root-then-below", hs(&["/"], vec![hf(0, "r", LNK | 0o777, "/", ""), hf(0, "r/etc/passwd", r, "", "evil")])),
        ("link-empty-target", hs(&["/"], vec![hf(0, "l", LNK | 0o777, "", "")])),
        ("link-chain", hs(&["/"], vec![hf(0, "l1", LNK | 0o777, "l2", ""), hf(0, "l2", LNK | 0o777, "/decoy/dir/", ""), hf(0, "l1/inner", REG | 0o606, "", "pwned")])),
        // special file types
        ("fifo", hs(&["/"], vec![hf(0, "p", 0o010644, "", "")])),
        ("char", hs(&["/"], vec![hf(0, "c", 0o020644, "", "")])),
        ("block", hs(&["/"], vec![hf(0, "b", 0o060644, "", "")])),
        ("socket", hs(&["/"], vec![hf(0, "s", 0o140644, "", "")])),
        ("type-zero", hs(&["/"], vec![hf(0, "z", 0o000644, "", "x")])),
        ("type-0110", hs(&["/"], vec![hf(0, "z", 0o110644, "", "x")])),
        ("file-then-fifo", hs(&["/"], vec![hf(0, "f", r, "", "first"), hf(0, "p", 0o010644, "", "")])),
        // empty names, relative names, bad indexes
        ("empty-base", hs(&["/a/"], vec![hf(0, "", r, "", "x")])),
        ("empty-base-dir", hs(&["/a/"], vec![hf(0, "", DIR | 0o700, "", "")])),
        ("empty-dir", hs(&[""], vec![hf(0, "f", r, "", "x")])),
        ("empty-both", hs(&[""], vec![hf(0, "", r, "", "x")])),
        ("empty-both-dir", hs(&[""], vec![hf(0, "", DIR | 0o700, "", "")])),
        ("empty-both-link", hs(&[""], vec![hf(0, "", LNK | 0o777, "/decoy", "")])),
        ("root-dir-entry", hs(&["/"], vec![hf(0, "", DIR | 0o711, "", "")])),
        ("relative-dir", hs(&["rel/"], vec![hf(0, "f", r, "", "x")])),
        ("relative-dotdot", hs(&["../decoy/"], vec![hf(0, "file", r, "", "x")])),
        ("dirindex-oob", hs(&["/"], vec![hf(0, "ok", r, "", "x"), hf(7, "f", r, "", "x")])),
        ("dir-no-slash", hs(&["/a"], vec![hf(0, "f", r, "", "x")])),
        ("missing-parent", hs(&["/"], vec![hf(0, "no/such/dir/f", r, "", "x")])),
        ("file-as-dir", hs(&["/"], vec![hf(0, "f", r, "", "x"), hf(0, "f/g", r, "", "y")])),
        ("no-files", hs(&[], vec![])),
    ];
    // structurally odd packages
    // (named entries: "./f" and "./a/g" give 116-byte entry headers, which the cut offsets below assume)
    let mut base = hs(&["/", "/a/"], vec![hf(0, "f", r, "", "hello"), hf(1, "g", REG | 0o755, "", "world!!")]);
    base.named = true;
    let mut s = base.clone(); s.omit = vec![1118]; v.push(("omit-dirnames", s));
    let mut s = base.clone(); s.omit = vec![1030]; v.push(("omit-modes", s));
    let mut s = base.clone(); s.omit = vec![1036]; v.push(("omit-linktos", s));
    let mut s = base.clone(); s.omit = vec![1117]; v.push(("omit-basenames", s));
    let mut s = base.clone(); s.short_modes = true; v.push(("short-modes", s));
    let mut s = base.clone(); s.payload_cut = Some(0); v.push(("payload-empty", s));
    let mut s = base.clone(); s.payload_cut = Some(130); v.push(("payload-cut-1", s));
    let mut s = base.clone(); s.payload_cut = Some(250); v.push(("payload-cut-2", s));
    let mut s = base.clone(); s.payload_cut = Some(118); v.push(("payload-cut-in-data", s));
    let mut s = base.clone(); s.payload_cut = Some(122); v.push(("payload-cut-in-padding", s));
    let mut s = base.clone(); s.payload_cut = Some(124); v.push(("payload-cut-after-entry", s));
    let mut s = base.clone(); s.compressor = Some(b("none")); v.push(("compressor-none", s));
    let mut s = base.clone(); s.compressor = Some(b("lz4")); v.push(("compressor-unknown", s));
    let mut s = base.clone(); s.digests = Some(vec![b("abc"), vec![]]); v.push(("digest-bad", s));
    let mut s = base.clone(); s.digests = Some(vec![vec![b'0'; 32], vec![b'f'; 32]]); v.push(("digest-md5", s));
    let mut s = hs(&["/"], vec![hf(0, "f", r, "", "abcd"), hf(0, "g", r, "", "efgh")]); s.payload_cut = Some(118); s.named = true; v.push(("payload-cut-in-data-aligned", s));
    // file digests: `get_file_entries` (hence `files()`, hence `extract`) fails unless every non-empty digest has the hex
    // length `FileDigest::new` pairs with RPMTAG_FILEDIGESTALGO (absent / not a DigestAlgorithm / wrong type = MD5).
    // One case per algorithm with the right length, the neighbouring wrong ones, and numbers that are no
    // algorithm of the crate (2 = SHA-1) or an algorithm `FileDigest::new` has no arm for (12, 14 = SHA-3)
    let hexd = |c: u8, n: usize| vec![c; n];
    let dg = |algo: Option<u32>, lens: [usize; 2]| {
        let mut s = base.clone();
        s.digest_algo = algo;
        s.digests = Some(vec![hexd(b'a', lens[0]), hexd(b'0', lens[1])]);
        s
    };
    v.push(("digest-sha224-56", dg(Some(11), [56, 56])));
    v.push(("digest-sha224-60", dg(Some(11), [60, 60])));
    v.push(("digest-sha224-56-then-60", dg(Some(11), [56, 60])));
    v.push(("digest-sha224-56-empty", dg(Some(11), [56, 0])));
    v.push(("digest-sha224-55", dg(Some(11), [56, 55])));
    v.push(("digest-sha224-64", dg(Some(11), [64, 64])));
    v.push(("digest-sha256-64", dg(Some(8), [64, 64])));
    v.push(("digest-sha256-32", dg(Some(8), [32, 32])));
    v.push(("digest-sha256-56", dg(Some(8), [64, 56])));
    v.push(("digest-sha384-96", dg(Some(9), [96, 96])));
    v.push(("digest-sha384-64", dg(Some(9), [64, 96])));
    v.push(("digest-sha512-128", dg(Some(10), [128, 128])));
    v.push(("digest-sha512-96", dg(Some(10), [128, 96])));
    v.push(("digest-md5-explicit-32", dg(Some(1), [32, 32])));
    v.push(("digest-md5-explicit-64", dg(Some(1), [64, 32])));
    v.push(("digest-md5-default-64", dg(None, [64, 64])));
    v.push(("digest-md5-default-56", dg(None, [56, 56])));
    v.push(("digest-sha1-40", dg(Some(2), [40, 40])));
    v.push(("digest-sha1-32", dg(Some(2), [32, 32])));
    v.push(("digest-sha3-256-64", dg(Some(12), [64, 64])));
    v.push(("digest-sha3-256-empty", dg(Some(12), [0, 0])));
    v.push(("digest-sha3-512-128", dg(Some(14), [128, 0])));
    v.push(("digest-algo-0-32", dg(Some(0), [32, 32])));
    v.push(("digest-algo-13-64", dg(Some(13), [64, 64])));
    v.push(("digest-algo-99-32", dg(Some(99), [32, 0])));
    v.push(("digest-algo-99-64", dg(Some(99), [64, 64])));
    v.push(("digest-algo-big-56", dg(Some(0xffff_ffff), [56, 56])));
    let mut s = dg(Some(11), [56, 56]); s.digest_algo_as_string = true; v.push(("digest-algo-wrongtype-56", s));
    let mut s = dg(Some(11), [32, 32]); s.digest_algo_as_string = true; v.push(("digest-algo-wrongtype-32", s));
    // the length is counted in BYTES of the string: 28 two-byte characters are "56 long"
    let mut s = base.clone(); s.digest_algo = Some(11); s.digests = Some(vec!["é".repeat(28).into_bytes(), "é".repeat(56).into_bytes()]); v.push(("digest-sha224-utf8", s));
    let mut s = base.clone(); s.digest_algo = Some(11); s.digests = Some(vec!["é".repeat(28).into_bytes(), vec![]]); v.push(("digest-sha224-utf8-ok", s));
    // fewer digests than files: the zip stops at the shortest column (one entry, the archive's second entry is unknown)
    let mut s = base.clone(); s.digest_algo = Some(11); s.digests = Some(vec![hexd(b'a', 56)]); v.push(("digest-sha224-short-column", s));
    // compressor names next to the accepted ones
    for (name, c) in [("compressor-caps", "None"), ("compressor-empty", ""), ("compressor-gz", "gz"), ("compressor-none-space", "none "), ("compressor-lzma", "lzma")] {
        let mut s = base.clone(); s.compressor = Some(b(c)); v.push((name, s));
    }
    // the name-length limit of `Reader::new` (name size including the NUL): "./f" + NULs, 4096 is read, 4097 refused
    let mut nb = hs(&["/"], vec![hf(0, "f", r, "", "hello"), hf(0, "g", REG | 0o755, "", "world!!")]);
    nb.named = true;
    for (name, pad) in [("name-pad-1", 1usize), ("name-pad-4", 4), ("name-size-4095", 4091), ("name-size-4096", 4092), ("name-size-4097", 4093), ("name-size-8192", 8188)] {
        let mut s = nb.clone(); s.name_pad = pad; v.push((name, s));
    }
    v.push(("benign-hand", base));
    v
}

const H_DIRS: [&str; 12] = ["/", "/a/", "/a/b/", "/../decoy/", "/a/../", "/link/", "", "rel/", "/a//b/./", "/l/", "/..", "/decoy/"];
const H_BASES: [&str; 16] = ["f", "g", "a", "b", "link", "l", "..", "../decoy/file", "../../etc/passwd", "/decoy/file", "", ".", "l/file", "link/new", "a/b", "file"];
const H_LINKS: [&str; 10] = ["/decoy", "/decoy/file", "../decoy", "/decoy/dir", "a", "/", "..", "nowhere", "/etc/passwd", "l"];

fn rand_hostile(rng: &mut Rng) -> HSpec {
    let nd = 1 + rng.below(3) as usize;
    let dirnames: Vec<Vec<u8>> = (0..nd).map(|_| b(*rng.pick(&H_DIRS[..]))).collect();
    let nf = rng.below(5) as usize;
    let files = (0..nf)
        .map(|_| {
            let ty = match rng.below(10) {
                0..=3 => REG,
                4..=5 => DIR,
                6..=8 => LNK,
                _ => *rng.pick(&[0o010000u16, 0o020000, 0o060000, 0o140000]),
            };
            let perm = if rng.chance(1, 2) { 0o644 } else { rng.below(4096) as u16 };
            let clen = rng.below(9) as usize;
            HFile {
                dir_index: if rng.chance(1, 20) { 9 } else { rng.below(nd as u64) as u32 },
                base: b(*rng.pick(&H_BASES[..])),
                mode: ty | perm,
                linkto: if ty == LNK { b(*rng.pick(&H_LINKS[..])) } else { vec![] },
                content: rng.bytes(clen),
            }
        })
        .collect();
    // now and then a digest algorithm and digests of the usual lengths (right and wrong ones)
    let (digest_algo, digests) = if rng.chance(1, 4) {
        let algo = *rng.pick(&[1u32, 2, 8, 9, 10, 11, 11, 11, 12, 14, 0, 77]);
        let ds = (0..nf).map(|_| vec![b'5'; *rng.pick(&[0usize, 32, 40, 56, 56, 60, 64, 96, 128])]).collect();
        (if rng.chance(1, 6) { None } else { Some(algo) }, Some(ds))
    } else {
        (None, None)
    };
    HSpec { dirnames, files, digest_algo, digests, ..Default::default() }
}

/// a link entry followed by entries at or below its path (and unrelated ones around it)
fn rand_link_attack(rng: &mut Rng) -> HSpec {
    let dirnames: Vec<Vec<u8>> = vec![b("/"), b("/sub/")];
    let di = rng.below(2) as u32;
    let name = *rng.pick(&["l", "link", "a"][..]);
    let target = *rng.pick(&["/decoy", "/decoy/file", "../decoy", "../../decoy/dir", "/decoy/dir", "/etc", "/", "/decoy/lnk", "sub", "/target.txt", "/decoy/nonexistent"][..]);
    let mut files = Vec::new();
    if rng.chance(1, 3) {
        files.push(hf(0, "before", REG | 0o644, "", "b"));
    }
    files.push(hf(di, name, LNK | 0o777, target, ""));
    if rng.chance(1, 4) {
        // a second hop
        files.push(hf(di, "hop", LNK | 0o777, name, ""));
    }
    let n = 1 + rng.below(2);
    for _ in 0..n {
        let via = if rng.chance(1, 5) { "hop" } else { name };
        let perm = rng.below(4096) as u16;
        let f = match rng.below(7) {
            0 => hf(di, via, REG | perm, "", "same-path"),
            1 => hf(di, &format!("{}/file", via), REG | perm, "", "below"),
            2 => hf(di, &format!("{}/new", via), REG | perm, "", "below-new"),
            3 => hf(di, via, DIR | perm, "", ""),
            4 => hf(di, &format!("{}/x/y", via), DIR | perm, "", ""),
            5 => hf(di, &format!("{}/lnk", via), LNK | 0o777, "elsewhere", ""),
            _ => hf(di, &format!("{}/passwd", via), REG | perm, "", "pw"),
        };
        files.push(f);
    }
    HSpec { dirnames, files, ..Default::default() }
}

fn corpus_requests() -> Vec<String> {
    let mut v: Vec<_> = std::fs::read_dir("corpus/C12")
        .map(|d| d.filter_map(|e| e.ok()).map(|e| e.path()).filter(|p| p.extension().map(|x| x == "case").unwrap_or(false)).collect())
        .unwrap_or_default();
    v.sort();
    v.iter()
        .filter_map(|p| std::fs::read_to_string(p).ok())
        .flat_map(|s| s.lines().map(|l| l.split(" => ").next().unwrap_or("").trim().to_string()).filter(|l| !l.is_empty() && !l.starts_with('#')).collect::<Vec<_>>())
        .collect()
}

pub fn gen(ctx: &mut Ctx) {
    let (si, sn) = ctx.shard;
    let jail = std_jail();
    let mut src = SrcDir::new();
    if ctx.args.iter().any(|a| a == "--write-corpus") {
        // (re)create corpus/C12/*.case from the hostile families that are known witnesses
        let _ = std::fs::create_dir_all("corpus/C12");
        for (name, spec) in hostile_families() {
            if ["dotdot-dir-overwrite", "dotdot-base", "link-then-below-abs", "link-then-same-file", "link-then-same-dir-chmod", "fifo", "char", "block", "socket"].contains(&name) {
                std::fs::write(format!("corpus/C12/{}.case", name), request(&hostile_pkg(&spec), None, "/target", &jail) + "\n").unwrap();
            }
        }
        return;
    }
    if si == 0 {
        // witnesses first
        for r in corpus_requests() {
            ctx.req(&r);
        }
        // the hostile families, one by one
        for (_, spec) in hostile_families() {
            ctx.req(&request(&hostile_pkg(&spec), None, "/target", &jail));
            // the same with the other kind of archive entries (named after the header paths and looked up
            // by name / stripped and looked up by index)
            let mut twin = spec.clone();
            twin.named = !spec.named;
            ctx.req(&request(&hostile_pkg(&twin), None, "/target", &jail));
        }
        // the same destination spelled differently by the caller: relative, through "..", through a symbolic link of
        // the caller's (the containment checks must not depend on the spelling)
        let mut jl = jail.clone();
        jl.push((b("/work/zzroot"), JEnt::Link(b("/"))));
        for (fi, (_, spec)) in hostile_families().into_iter().enumerate() {
            for (vi, via) in ["rel", "dotdot", "link"].iter().enumerate() {
                if !ctx.thorough && (fi + vi) % 3 != 0 { continue; }
                let j = if *via == "link" { &jl } else { &jail };
                ctx.req(&format!("{} via={}", request(&hostile_pkg(&spec), None, "/target", j), via));
                let mut twin = spec.clone();
                twin.named = !spec.named;
                ctx.req(&format!("{} via={}", request(&hostile_pkg(&twin), None, "/target", j), via));
            }
        }
        // jail variants: the destination exists already / has no parent / is nested
        let benign = hostile_pkg(&hs(&["/", "/a/"], vec![hf(0, "f", REG | 0o644, "", "hello"), hf(1, "g", REG | 0o755, "", "world")]));
        let mut j2 = jail.clone();
        j2.push((b("/target"), JEnt::Dir(0o700)));
        j2.push((b("/target/old"), JEnt::File(0o600, b("old"))));
        ctx.req(&request(&benign, None, "/target", &j2));
        ctx.req(&request(&benign, None, "/no/parent", &jail));
        ctx.req(&request(&benign, None, "/work/out", &jail));
        ctx.req(&request(&hostile_pkg(&hs(&["/"], vec![hf(0, "../escaped", REG | 0o644, "", "x")])), None, "/work/out", &jail));
        let mut j3 = jail.clone();
        j3.push((b("/target"), JEnt::Link(b("/decoy"))));
        ctx.req(&request(&benign, None, "/target", &j3));
        // builder-made: every permission bit on files and directories, files directly under '/', nested dirs, links
        let mut files = vec![reg("/top", 0o644, b"top-level"), reg("/empty", 0o600, b""), dir("/d", 0o755), dir("/d/e/f", 0o700), lnk("/d/l", "../top"), lnk("/abs", "/etc/passwd"), lnk("/dangling", "no/where")];
        for bit in 0..12 {
            files.push(reg(&format!("/bits/f{}", bit), 1 << bit, b"x"));
            files.push(dir(&format!("/bits/d{}", bit), 1 << bit));
        }
        files.push(reg("/bits/all", 0o7777, b"all"));
        files.push(dir("/bits/dall", 0o7777));
        files.push(reg("/bits/none", 0, b"none"));
        files.push(dir("/bits/dnone", 0));
        files.push(reg("/bits/dnone/below", 0o644, b"below a mode-0 directory"));
        files.push(dir("/sgid", 0o2775));
        files.push(reg("/sgid/sub/deeper/f", 0o644, b"inherits"));
        files.push(reg("./rel/dot/slash", 0o640, b"dot-slash destination"));
        if let Some(p) = build_pkg(&mut src, &files, rpm::CompressionType::None) {
            ctx.req(&request(&p, None, "/target", &jail));
            // the un-reparsed value, also with the destination spelled differently (never done for builder-made packages before)
            ctx.req(&request_mem(&files, "none", &p, None, "/target", &jail));
            ctx.req(&format!("{} via=rel", request_mem(&files, "none", &p, None, "/target", &jail)));
            ctx.req(&format!("{} via=dotdot", request(&p, None, "/target", &jail)));
            for (comp, cname) in [(rpm::CompressionType::Gzip, "gzip"), (rpm::CompressionType::Zstd, "zstd"), (rpm::CompressionType::Xz, "xz"), (rpm::CompressionType::Bzip2, "bzip2")] {
                if let (Some(pc), Ok(raw)) = (build_pkg(&mut src, &files, comp), rpm::Package::parse(&mut &p[..])) {
                    ctx.req(&request(&pc, Some(&raw.content), "/target", &jail));
                    ctx.req(&request_mem(&files, cname, &pc, Some(&raw.content), "/target", &jail));
                }
            }
        }
        // builder-made but hostile: the builder does not refuse these destinations
        for files in [
            vec![lnk("/a/l", "/decoy"), reg("/a/l/file", 0o600, b"through the link")],
            vec![reg("/a/../../decoy/file", 0o600, b"dotdot")],
            vec![lnk("/l", "/decoy/file"), reg("/l/", 0o600, b"x")],
        ] {
            if let Some(p) = build_pkg(&mut src, &files, rpm::CompressionType::None) {
                ctx.req(&request(&p, None, "/target", &jail));
                ctx.req(&request_mem(&files, "none", &p, None, "/target", &jail));
            }
        }
        // an empty package (no file tags at all)
        if let Some(p) = build_pkg(&mut src, &[], rpm::CompressionType::None) {
            ctx.req(&request(&p, None, "/target", &jail));
            ctx.req(&request_mem(&[], "none", &p, None, "/target", &jail));
        }
    }
    // seeded: benign builder-made packages and random hostile ones
    let n_benign = ctx.q(70u64, 1200) / sn;
    for i in 0..n_benign {
        let files = rand_benign(&mut ctx.rng);
        let gz = i % 16 == 15;
        if let Some(p) = build_pkg(&mut src, &files, rpm::CompressionType::None) {
            if gz {
                if let (Some(pc), Ok(raw)) = (build_pkg(&mut src, &files, rpm::CompressionType::Gzip), rpm::Package::parse(&mut &p[..])) {
                    ctx.req(&request(&pc, Some(&raw.content), "/target", &jail));
                    ctx.req(&request_mem(&files, "gzip", &pc, Some(&raw.content), "/target", &jail));
                }
            } else {
                ctx.req(&request(&p, None, "/target", &jail));
                // every third one also as the un-reparsed value
                if i % 3 == 0 {
                    ctx.req(&request_mem(&files, "none", &p, None, "/target", &jail));
                }
            }
        }
    }
    let n_hostile = ctx.q(60u64, 1700) / sn;
    for i in 0..n_hostile {
        let mut s = if i % 3 == 2 { rand_link_attack(&mut ctx.rng) } else { rand_hostile(&mut ctx.rng) };
        s.named = i % 4 == 1;
        ctx.req(&request(&hostile_pkg(&s), None, "/target", &jail));
    }
}
