//! C03: digest verification succeeds exactly when all recorded digests match.
//!
//! ops: `digests BYTES`, `dflip BYTES BIT`, `hashx ALGO BYTES`, `hashselftest`,
//! `digmem03 b<i>|s<i> BYTES K`: `verify_digests()` on the UN-REPARSED `Package` value that `build()` (`b`) / `build_and_sign()`
//! (`s`, Ed25519 test key) returned for configuration i — never written, never parsed; K = `-` or the index of a bit of
//! `p.content` flipped IN MEMORY first. BYTES = what that value writes (made by the generator; the driver works on them).
//! Observation: `<class> same=<the value, flipped or not, writes exactly BYTES with the same bit flipped>`.
use crate::common::*;
use crate::pkggen::*;
use sha2::Digest as _;

const SIG_MD5: u32 = 1004;
const SIG_SHA1: u32 = 269;
const SIG_SHA256: u32 = 273;
const TAG_PD: u32 = 5092;
const TAG_PDA: u32 = 5093;

fn observe(bytes: &[u8]) -> String {
    let p = match rpm::Package::parse(&mut &bytes[..]) {
        Ok(p) => p,
        Err(_) => return "parse-err".into(),
    };
    match p.verify_digests() {
        Ok(()) => "ok".into(),
        Err(rpm::Error::DigestMismatchError) => "err:mismatch".into(),
        Err(rpm::Error::UnsupportedDigestAlgorithm(_)) => "err:unsupported".into(),
        Err(_) => "err:other".into(),
    }
}

pub fn flip_bit(bytes: &mut [u8], bit: u64) {
    let i = (bit / 8) as usize;
    if i < bytes.len() {
        bytes[i] ^= 0x80u8 >> (bit % 8);
    }
}

fn md5_of(b: &[u8]) -> Vec<u8> { md5::Md5::digest(b).to_vec() }
fn sha1_of(b: &[u8]) -> Vec<u8> { sha1::Sha1::digest(b).to_vec() }
fn sha256_of(b: &[u8]) -> Vec<u8> { sha2::Sha256::digest(b).to_vec() }

pub fn eval(op: &str, a: &[&str]) -> Option<String> {
    match op {
        "digests" => Some(observe(&arg_bytes(a[0]))),
        "dflip" => {
            let mut b = arg_bytes(a[0]);
            flip_bit(&mut b, a[1].parse().ok()?);
            Some(observe(&b))
        }
        "hashx" => {
            let b = arg_bytes(a[1]);
            Some(hex::encode(match a[0] {
                "md5" => md5_of(&b),
                "sha1" => sha1_of(&b),
                _ => sha256_of(&b),
            }))
        }
        "hashselftest" => Some("ok".into()),
        "digmem03" if a.len() == 3 => Some(observe_mem(a[0], &arg_bytes(a[1]), a[2])),
        _ => None,
    }
}

/* ---------------------------------------------------------------------------------------------
 * hand-encoded packages: every digest slot in one of many variants
 * ------------------------------------------------------------------------------------------- */

type Ent = (u32, u32, TData); // (tag, type, data)

fn other_hex_digit(c: u8, rng: &mut Rng) -> u8 {
    loop {
        let d = b"0123456789abcdef"[rng.below(16) as usize];
        if d != c { return d; }
    }
}

/// a wrong text of the same kind: k = 0 one digit changed, 1 upper case, 2 truncated, 3 one char longer, 4 empty,
/// 5 leading blank, 6 "0x" prefix
fn wrong_text(right: &[u8], k: u64, rng: &mut Rng) -> Vec<u8> {
    let mut t = right.to_vec();
    match k {
        0 => {
            let i = rng.below(t.len() as u64) as usize;
            t[i] = other_hex_digit(t[i], rng);
        }
        1 => {
            t = t.to_ascii_uppercase();
            if t == right {
                // no letter in the digest: make sure it differs
                t[0] = other_hex_digit(t[0], rng);
            }
        }
        2 => { t.pop(); }
        3 => t.push(b'0'),
        4 => t.clear(),
        5 => t.insert(0, b' '),
        _ => { t.splice(0..0, *b"0x"); }
    }
    t
}
const N_WRONG_TEXT: u64 = 7;

/// wrong raw digest: 0 one bit flipped, 1 truncated, 2 one byte longer, 3 empty, 4 all zero
fn wrong_bin(right: &[u8], k: u64, rng: &mut Rng) -> Vec<u8> {
    let mut t = right.to_vec();
    match k {
        0 => flip_bit(&mut t, rng.below(right.len() as u64 * 8)),
        1 => { t.pop(); }
        2 => t.push(0),
        3 => t.clear(),
        _ => t.iter_mut().for_each(|b| *b = 0),
    }
    if t == right { t[0] ^= 1; }
    t
}
const N_WRONG_BIN: u64 = 5;

/// variants of the MD5 slot (BIN). 0 absent, 1 correct, 2 wrong (right type) …
const MD5_VARIANTS: u32 = 17;
fn md5_slot(v: u32, right: &[u8], rng: &mut Rng) -> Vec<Ent> {
    let t = SIG_MD5;
    let ok = || (t, 7u32, TData::Bytes(right.to_vec()));
    let k = rng.below(N_WRONG_BIN);
    let bad = (t, 7u32, TData::Bytes(wrong_bin(right, k, rng)));
    match v {
        0 => vec![],
        1 => vec![ok()],
        2 => vec![bad],
        3 => vec![(t, 6, TData::Str(hex::encode(right).into_bytes()))],        // STRING holding the hex text
        4 => vec![(t, 2, TData::Bytes(right.to_vec()))],                       // INT8
        5 => vec![(t, 1, TData::Bytes(right.to_vec()))],                       // CHAR
        6 => vec![(t, 4, TData::U32(right.chunks(4).map(|c| u32::from_be_bytes([c[0], c[1], c[2], c[3]])).collect()))],
        7 => vec![(t, 8, TData::Strs(vec![hex::encode(right).into_bytes()]))], // STRING_ARRAY
        8 => vec![(t, 0, TData::Null)],
        9 => vec![ok(), bad],                                                  // duplicates: only the first counts
        10 => vec![bad, ok()],
        11 => vec![bad.clone(), ok(), bad],
        12 => vec![bad.clone(), bad, ok()],
        13 => vec![ok(), ok()],
        14 => vec![(t, 6, TData::Str(hex::encode(right).into_bytes())), ok()], // wrong type first, right one hidden behind it
        15 => vec![ok(), (t, 6, TData::Str(hex::encode(right).into_bytes()))],
        _ => vec![bad.clone(), bad],
    }
}

/// variants of a STRING slot (SHA1 / SHA256 of the header)
const STR_VARIANTS: u32 = 17;
fn str_slot(t: u32, v: u32, right_raw: &[u8], rng: &mut Rng) -> Vec<Ent> {
    let right = hex::encode(right_raw).into_bytes();
    let ok = || (t, 6u32, TData::Str(right.clone()));
    let k = rng.below(N_WRONG_TEXT);
    let bad = (t, 6u32, TData::Str(wrong_text(&right, k, rng)));
    match v {
        0 => vec![],
        1 => vec![ok()],
        2 => vec![bad],
        3 => vec![(t, 7, TData::Bytes(right_raw.to_vec()))],                   // BIN holding the raw digest
        4 => vec![(t, 8, TData::Strs(vec![right.clone()]))],                   // STRING_ARRAY
        5 => vec![(t, 9, TData::Strs(vec![right.clone()]))],                   // I18NSTRING
        6 => vec![(t, 1, TData::Bytes(right.clone()))],                        // CHAR
        7 => vec![(t, 0, TData::Null)],
        8 => vec![(t, 6, TData::Str(wrong_text(&right, 1, rng)))],             // upper case, explicitly
        9 => vec![ok(), bad],
        10 => vec![bad, ok()],
        11 => vec![bad.clone(), ok(), bad],
        12 => vec![bad.clone(), bad, ok()],
        13 => vec![ok(), ok()],
        14 => vec![(t, 7, TData::Bytes(right_raw.to_vec())), ok()],
        15 => vec![ok(), (t, 7, TData::Bytes(right_raw.to_vec()))],
        _ => vec![bad.clone(), bad],
    }
}

/// variants of the PAYLOADDIGEST slot (STRING_ARRAY)
const PD_VARIANTS: u32 = 20;
fn pd_slot(v: u32, right_raw: &[u8], rng: &mut Rng) -> Vec<Ent> {
    let t = TAG_PD;
    let right = hex::encode(right_raw).into_bytes();
    let ok = || (t, 8u32, TData::Strs(vec![right.clone()]));
    let k = rng.below(N_WRONG_TEXT);
    let wrong = wrong_text(&right, k, rng);
    let bad = (t, 8u32, TData::Strs(vec![wrong.clone()]));
    match v {
        0 => vec![],
        1 => vec![ok()],
        2 => vec![bad],
        3 => vec![(t, 8, TData::Strs(vec![]))],                                // empty array
        4 => vec![(t, 8, TData::Strs(vec![wrong.clone(), right.clone()]))],    // first wrong, second right
        5 => vec![(t, 8, TData::Strs(vec![right.clone(), wrong.clone()]))],    // first right, second wrong
        6 => vec![(t, 6, TData::Str(right.clone()))],                          // STRING
        7 => vec![(t, 7, TData::Bytes(right_raw.to_vec()))],                   // BIN
        8 => vec![(t, 9, TData::Strs(vec![right.clone()]))],                   // I18NSTRING, right value
        9 => vec![(t, 9, TData::Strs(vec![wrong.clone()]))],                   // I18NSTRING, wrong value
        10 => vec![(t, 9, TData::Strs(vec![]))],                               // I18NSTRING, empty
        11 => vec![(t, 8, TData::Strs(vec![wrong_text(&right, 1, rng)]))],     // upper case
        12 => vec![ok(), bad],
        13 => vec![bad, ok()],
        14 => vec![bad.clone(), ok(), bad],
        15 => vec![bad.clone(), bad, ok()],
        16 => vec![(t, 6, TData::Str(right.clone())), ok()],
        17 => vec![ok(), (t, 6, TData::Str(right.clone()))],
        18 => vec![(t, 8, TData::Strs(vec![right.clone(), right.clone(), wrong]))],
        _ => vec![(t, 8, TData::Strs(vec![]))  , ok()],                        // empty array first, good one hidden behind it
    }
}

pub const ALGOS: [u32; 11] = [1, 8, 9, 10, 11, 12, 14, 0, 2, 99, u32::MAX];

/// variants of the PAYLOADDIGESTALGO slot (INT32): 0 absent, 1..=11 the numbers of `ALGOS`, then the odd ones
const PDA_VARIANTS: u32 = 26;
fn pda_slot(v: u32, rng: &mut Rng) -> Vec<Ent> {
    let t = TAG_PDA;
    let n = |x: u32| (t, 4u32, TData::U32(vec![x]));
    match v {
        0 => vec![],
        1..=11 => vec![n(ALGOS[(v - 1) as usize])],
        12 => vec![(t, 4, TData::U32(vec![]))],                                // empty INT32 array
        13 => vec![(t, 4, TData::U32(vec![8, 1]))],                            // first element counts
        14 => vec![(t, 4, TData::U32(vec![1, 8]))],
        15 => vec![(t, 4, TData::U32(vec![99, 8]))],
        16 => vec![(t, 3, TData::U16(vec![8]))],                               // INT16
        17 => vec![(t, 5, TData::U64(vec![8]))],                               // INT64
        18 => vec![(t, 6, TData::Str(b"8".to_vec()))],                         // STRING
        19 => vec![(t, 2, TData::Bytes(vec![8]))],                             // INT8
        20 => vec![n(8), n(1)],                                                // duplicates
        21 => vec![n(1), n(8)],
        22 => vec![n(99), n(8)],
        23 => vec![(t, 3, TData::U16(vec![8])), n(8)],
        24 => vec![n(8), (t, 3, TData::U16(vec![8]))],
        _ => vec![n(*rng.pick(&[3u32, 4, 5, 6, 7, 13, 15, 16, 255, 256, 0x0800_0000, 0x8000_0008]))],
    }
}

fn rand_sig_tag(rng: &mut Rng) -> u32 {
    *rng.pick(&[62u32, 267, 268, 270, 271, 1000, 1002, 1005, 1007, 1008, 274, 278])
}
fn rand_main_tag(rng: &mut Rng) -> u32 {
    match rng.below(8) {
        0 => 5097,                          // PAYLOADDIGESTALT: a neighbour that must be ignored
        1 => *rng.pick(&[100u32, 5091, 5094, 1004, 269, 273]),
        _ => 1000 + rng.below(60) as u32,
    }
}

/// insert the slot entries among `base` (random positions, same-tag entries keep their relative order)
fn place(rng: &mut Rng, base: &mut Vec<Ent>, slot: Vec<Ent>) {
    let mut lo = 0usize;
    for e in slot {
        let pos = lo + rng.below((base.len() - lo + 1) as u64) as usize;
        base.insert(pos, e);
        lo = pos + 1;
    }
}

fn header_of(entries: &[Ent], reserved: [u8; 4]) -> GHeader {
    let mut h = GHeader::new();
    h.reserved = reserved;
    for (tag, ty, d) in entries {
        h.push(*tag, *ty, d);
    }
    h
}

#[derive(Clone, Copy, Debug)]
pub struct Choice {
    pub md5: u32,
    pub sha1: u32,
    pub sha256: u32,
    pub pd: u32,
    pub pda: u32,
}

/// build one package: random other entries, the five slots as chosen; all "right" values are the true digests
pub fn build_case(rng: &mut Rng, c: Choice) -> Vec<u8> {
    let n = rng.below(40) as usize;
    let payload = if rng.chance(1, 10) { vec![] } else { rng.bytes(n) };
    // main header
    let mut main: Vec<Ent> = Vec::new();
    for _ in 0..rng.below(4) {
        let ty = rng.below(10) as u32;
        main.push((rand_main_tag(rng), ty, rand_data(rng, ty)));
    }
    let pd = pd_slot(c.pd, &sha256_of(&payload), rng);
    place(rng, &mut main, pd);
    let pda = pda_slot(c.pda, rng);
    place(rng, &mut main, pda);
    let reserved = if rng.chance(1, 4) { [rng.next() as u8, rng.next() as u8, rng.next() as u8, rng.next() as u8] } else { [0; 4] };
    let mut hdr = header_of(&main, reserved);
    if rng.chance(1, 5) {
        let k = rng.below(9) as usize;
        hdr.store.extend(rng.bytes(k)); // slack after the last entry's data: part of the hashed bytes
    }
    // the digests cover the header as rpm-rs re-serialises it: reserved bytes zero
    let mut canon = hdr.clone();
    canon.reserved = [0; 4];
    let hb = canon.bytes();
    let mut all = hb.clone();
    all.extend_from_slice(&payload);
    // signature header
    let mut sig: Vec<Ent> = Vec::new();
    for _ in 0..rng.below(3) {
        let ty = rng.below(10) as u32;
        sig.push((rand_sig_tag(rng), ty, rand_data(rng, ty)));
    }
    let s = md5_slot(c.md5, &md5_of(&all), rng);
    place(rng, &mut sig, s);
    let s = str_slot(SIG_SHA1, c.sha1, &sha1_of(&hb), rng);
    place(rng, &mut sig, s);
    let s = str_slot(SIG_SHA256, c.sha256, &sha256_of(&hb), rng);
    place(rng, &mut sig, s);
    let sres = if rng.chance(1, 4) { [9, 9, 9, 9] } else { [0; 4] };
    let sigh = header_of(&sig, sres);
    let lead = gen_lead(rng, false);
    let pad = if rng.chance(1, 4) { 0x55 } else { 0 };
    assemble(&lead, &sigh, pad, &hdr, &payload)
}

/// 0 absent, 1 correct, 2 wrong-but-right-type
fn simple3(x: u64) -> u32 { x as u32 }

fn emit_pkg(ctx: &mut Ctx, name: &str, bytes: &[u8]) {
    let _ = std::fs::create_dir_all("work");
    let a = blob_arg("work", name, bytes);
    ctx.req(&format!("digests {}", a));
}

fn fixture_paths() -> Vec<std::path::PathBuf> {
    let mut v: Vec<_> = std::fs::read_dir("/repo/test_assets/fixture_packages")
        .map(|d| d.filter_map(|e| e.ok()).map(|e| e.path()).filter(|p| p.is_file()).collect())
        .unwrap_or_default();
    v.sort();
    v
}

/// the `Package` VALUE the real builder returns for configuration `i` (0 none, 1 gzip, 2 zstd; all four digests recorded),
/// optionally signed on the way (`build_and_sign`, Ed25519 test key; deterministic: the time is clamped to the source date)
fn build_mem(i: usize, signed: bool) -> Option<rpm::Package> {
    let comp = [rpm::CompressionType::None, rpm::CompressionType::Gzip, rpm::CompressionType::Zstd].into_iter().nth(i)?;
    let b = rpm::PackageBuilder::new(&format!("c03pkg{}", i), "1.2.3", "MIT", "noarch", "digest test package")
        .compression(comp)
        .source_date(1_600_000_000u32);
    let b = b.with_file("/repo/test_assets/awesome.toml", rpm::FileOptions::new("/etc/c03/awesome.toml")).ok()?;
    let b = if i > 0 { b.with_file("/repo/test_assets/awesome.py", rpm::FileOptions::new("/usr/bin/awesome")).ok()? } else { b };
    if signed {
        let sec = std::fs::read("/repo/tests/assets/signing_keys/secret_ed25519.asc").ok()?;
        let signer = rpm::signature::pgp::Signer::load_from_asc_bytes(&sec).ok()?;
        b.build_and_sign(signer).ok()
    } else {
        b.build().ok()
    }
}

/// packages produced by the real builder (all four digests recorded)
fn built_packages() -> Vec<Vec<u8>> {
    let mut out = Vec::new();
    for i in 0..3 {
        if let Some(p) = build_mem(i, false) {
            let mut w = Vec::new();
            if p.write(&mut w).is_ok() { out.push(w); }
        }
    }
    out
}

/// `digmem03`: the un-reparsed value
fn observe_mem(variant: &str, bytes: &[u8], k: &str) -> String {
    let (signed, idx) = match (variant.as_bytes().first(), variant.get(1..).and_then(|x| x.parse::<usize>().ok())) {
        (Some(b'b'), Some(i)) => (false, i),
        (Some(b's'), Some(i)) => (true, i),
        _ => return "bad-request".into(),
    };
    let mut p = match build_mem(idx, signed) {
        Some(p) => p,
        None => return "build-err".into(),
    };
    let mut want = bytes.to_vec();
    if k != "-" {
        let bit: u64 = match k.parse() { Ok(b) => b, Err(_) => return "bad-request".into() };
        flip_bit(&mut p.content, bit);
        let off = (bytes.len() - p.content.len().min(bytes.len())) as u64;
        flip_bit(&mut want, off * 8 + bit);
    }
    let cls = match p.verify_digests() {
        Ok(()) => "ok",
        Err(rpm::Error::DigestMismatchError) => "err:mismatch",
        Err(rpm::Error::UnsupportedDigestAlgorithm(_)) => "err:unsupported",
        Err(_) => "err:other",
    };
    let mut w = Vec::new();
    let same = p.write(&mut w).is_ok() && w == want;
    format!("{} same={}", cls, same)
}

fn offsets_of(bytes: &[u8]) -> Option<[u64; 5]> {
    let m = rpm::PackageMetadata::parse(&mut &bytes[..]).ok()?;
    let o = m.get_package_segment_offsets();
    Some([o.lead, o.signature_header, o.header, o.payload, bytes.len() as u64])
}

pub fn gen(ctx: &mut Ctx) {
    let (si, sn) = ctx.shard;
    let mut idx: u64 = 0; // global case counter: shard i takes the cases with idx % n == i
    macro_rules! mine { () => {{ idx += 1; (idx - 1) % sn == si }}; }

    /* the driver's own hash functions: fixed vectors, then against the Rust crates on all short lengths */
    if si == 0 {
        ctx.req("hashselftest");
    }
    for len in 0..=ctx.q(150usize, 600) {
        for algo in ["md5", "sha1", "sha256"] {
            let b = ctx.rng.bytes(len);
            if mine!() { ctx.req(&format!("hashx {} {}", algo, hx(&b))); }
        }
    }

    /* (b) real packages */
    let mut real: Vec<std::path::PathBuf> = asset_paths();
    real.extend(fixture_paths());
    for p in &real {
        if mine!() { ctx.req(&format!("digests @{}", p.display())); }
    }
    let built = built_packages();
    for (i, b) in built.iter().enumerate() {
        if mine!() { emit_pkg(ctx, &format!("c03-built-{}-s{}", i, si), b); }
    }

    /* (b') the un-reparsed values `build()` / `build_and_sign()` return: as they are, and with one bit of `content` flipped in memory */
    for signed in [false, true] {
        for i in 0..3usize {
            let p = match build_mem(i, signed) { Some(p) => p, None => continue };
            let mut w = Vec::new();
            if p.write(&mut w).is_err() { continue; }
            let _ = std::fs::create_dir_all("work");
            let tag = format!("{}{}", if signed { "s" } else { "b" }, i);
            let a = blob_arg("work", &format!("c03-mem-{}-s{}", tag, si), &w);
            if mine!() { ctx.req(&format!("digmem03 {} {} -", tag, a)); }
            let nbits = p.content.len() as u64 * 8;
            let mut r = Rng::new(ctx.seed ^ 0x3E3 ^ ((i as u64) << 8) ^ signed as u64);
            for j in 0..ctx.q(12u64, 200) {
                let bit = match j { 0 => 0, 1 => nbits.saturating_sub(1), _ => r.below(nbits.max(1)) };
                if nbits > 0 && mine!() { ctx.req(&format!("digmem03 {} {} {}", tag, a, bit)); }
            }
        }
    }

    /* (a) hand-encoded: the full product of {absent, correct, wrong} for the four digests × algorithm numbers */
    let reps = ctx.q(3u64, 16);
    for rep in 0..reps {
        for combo in 0..81u64 {
            for pda in 0..=11u32 {
                let c = Choice {
                    md5: simple3(combo % 3), sha1: simple3(combo / 3 % 3), sha256: simple3(combo / 9 % 3),
                    pd: simple3(combo / 27 % 3), pda,
                };
                // every shard draws the same stream so that the partition is by index only
                let mut r = Rng::new(ctx.seed ^ (rep << 40) ^ (combo << 8) ^ pda as u64 ^ 0xC03);
                let bytes = build_case(&mut r, c);
                if mine!() { ctx.req(&format!("digests {}", hx(&bytes))); }
            }
        }
    }
    /* every variant of every slot (wrong types, duplicates in first / middle / last position, empty and
       two-element arrays, odd algorithm encodings) against random states of the other slots */
    let reps = ctx.q(20u64, 120);
    let slots: [(u32, u32); 5] = [(0, MD5_VARIANTS), (1, STR_VARIANTS), (2, STR_VARIANTS), (3, PD_VARIANTS), (4, PDA_VARIANTS)];
    for (slot, nvar) in slots {
        for v in 0..nvar {
            for rep in 0..reps {
                let mut r = Rng::new(ctx.seed ^ ((slot as u64) << 48) ^ ((v as u64) << 32) ^ (rep << 4) ^ 0x3C03);
                let pick3 = |r: &mut Rng| *r.pick(&[0u32, 1, 1, 1, 2]);
                let mut c = Choice { md5: pick3(&mut r), sha1: pick3(&mut r), sha256: pick3(&mut r), pd: *r.pick(&[0u32, 1, 1, 1, 2]), pda: *r.pick(&[0u32, 2, 2, 2, 2, 1, 3, 10]) };
                match slot {
                    0 => c.md5 = v,
                    1 => c.sha1 = v,
                    2 => c.sha256 = v,
                    3 => c.pd = v,
                    _ => c.pda = v,
                }
                let bytes = build_case(&mut r, c);
                if mine!() { ctx.req(&format!("digests {}", hx(&bytes))); }
            }
        }
    }
    /* fully random choices */
    for i in 0..ctx.q(4000u64, 30_000) {
        let mut r = Rng::new(ctx.seed ^ (i << 16) ^ 0x5EED_C03);
        let c = Choice {
            md5: r.below(MD5_VARIANTS as u64) as u32, sha1: r.below(STR_VARIANTS as u64) as u32, sha256: r.below(STR_VARIANTS as u64) as u32,
            pd: r.below(PD_VARIANTS as u64) as u32, pda: r.below(PDA_VARIANTS as u64) as u32,
        };
        let bytes = build_case(&mut r, c);
        if mine!() { ctx.req(&format!("digests {}", hx(&bytes))); }
    }

    /* single-bit flips */
    // every bit of one hand-encoded package that records all four digests correctly
    {
        let mut r = Rng::new(ctx.seed ^ 0xF11F);
        let good = build_case(&mut r, Choice { md5: 1, sha1: 1, sha256: 1, pd: 1, pda: 2 });
        let h = hx(&good);
        let step = ctx.q(1u64, 1);
        let mut bit = 0u64;
        while bit < good.len() as u64 * 8 {
            if mine!() { ctx.req(&format!("dflip {} {}", h, bit)); }
            bit += step;
        }
    }
    // real packages: smallest and largest by size
    let mut sized: Vec<(u64, std::path::PathBuf)> = real.iter().filter_map(|p| std::fs::metadata(p).ok().map(|m| (m.len(), p.clone()))).collect();
    sized.sort();
    if let (Some((_, small)), Some((_, large))) = (sized.first().cloned(), sized.last().cloned()) {
        let sb = std::fs::read(&small).unwrap_or_default();
        if let Some(o) = offsets_of(&sb) {
            if ctx.thorough {
                // all bits of the signature header and of the main header; every 8th bit of lead and payload
                for seg in 0..4 {
                    let (lo, hi) = (o[seg] * 8, o[seg + 1] * 8);
                    let step = if seg == 1 || seg == 2 { 1 } else { 8 };
                    let mut bit = lo + (ctx.seed % step);
                    while bit < hi {
                        if mine!() { ctx.req(&format!("dflip @{} {}", small.display(), bit)); }
                        bit += step;
                    }
                }
            } else {
                // ~2000 seeded positions: 150 lead, 450 signature header, 900 header, 500 payload
                let mut r = Rng::new(ctx.seed ^ 0xB17F);
                for (seg, cnt) in [(0usize, 150u64), (1, 450), (2, 900), (3, 500)] {
                    let (lo, hi) = (o[seg] * 8, o[seg + 1] * 8);
                    for _ in 0..cnt {
                        let bit = lo + r.below(hi - lo);
                        if mine!() { ctx.req(&format!("dflip @{} {}", small.display(), bit)); }
                    }
                }
            }
        }
        let lb_len = std::fs::metadata(&large).map(|m| m.len()).unwrap_or(0);
        if ctx.thorough {
            let mut bit = ctx.seed % 64;
            while bit < lb_len * 8 {
                if mine!() { ctx.req(&format!("dflip @{} {}", large.display(), bit)); }
                bit += 64;
            }
        } else {
            let mut r = Rng::new(ctx.seed ^ 0x1A26E);
            for _ in 0..120 {
                let bit = r.below(lb_len * 8);
                if mine!() { ctx.req(&format!("dflip @{} {}", large.display(), bit)); }
            }
        }
    }
    // built packages: seeded positions over all regions
    for (i, b) in built.iter().enumerate() {
        let _ = std::fs::create_dir_all("work");
        let a = blob_arg("work", &format!("c03-built-{}-s{}", i, si), b);
        let mut r = Rng::new(ctx.seed ^ 0xB111 ^ i as u64);
        for _ in 0..ctx.q(150u64, 3000) {
            let bit = r.below(b.len() as u64 * 8);
            if mine!() { ctx.req(&format!("dflip {} {}", a, bit)); }
        }
    }
}
