//! C15: textual forms of EVR, NEVRA and compression type through the public API
//! (`Evr`/`Nevra` `new`, `to_string`, `as_normalized_form`, `nvra`, `parse`, accessors, `==`;
//! `CompressionType` `Display` / `FromStr`).
use crate::common::*;
use rpm::{CompressionType, Evr, Nevra};
use std::str::FromStr;

fn st(h: &str) -> String {
    String::from_utf8(unhx(h)).expect("utf8")
}
fn h(s: &str) -> String {
    hx(s.as_bytes())
}

/// every variant, in declaration order; `variant as usize` is the index used on the wire
const VARIANTS: [CompressionType; 5] = [
    CompressionType::None,
    CompressionType::Gzip,
    CompressionType::Zstd,
    CompressionType::Xz,
    CompressionType::Bzip2,
];
/// compile-time reminder: a new variant must be added to VARIANTS
#[allow(dead_code)]
fn variants_exhaustive(c: CompressionType) {
    match c {
        CompressionType::None
        | CompressionType::Gzip
        | CompressionType::Zstd
        | CompressionType::Xz
        | CompressionType::Bzip2 => {}
    }
}

/// the fields are printed from `values()`; the last field also demands that the single accessors agree with the tuple
fn evr_obs(p: &Evr, orig: &Evr) -> String {
    let (e, v, r) = p.values();
    let same = (p.epoch(), p.version(), p.release()) == (e, v, r);
    format!("{},{},{},{}", h(e), h(v), h(r), p == orig && same)
}
/// likewise with `Nevra::values()`, and `Nevra::evr()` must be the EVR made of the same three fields
fn nevra_obs(p: &Nevra, orig: &Nevra) -> String {
    let (n, e, v, r, a) = p.values();
    let same = (p.name(), p.epoch(), p.version(), p.release(), p.arch()) == (n, e, v, r, a)
        && p.evr().values() == (e, v, r)
        && *p.evr() == Evr::new(e, v, r)
        && p.evr() == orig.evr();
    format!("{},{},{},{},{},{}", h(n), h(e), h(v), h(r), h(a), p == orig && same)
}
fn comp_obs(s: &str) -> String {
    match CompressionType::from_str(s) {
        Ok(c) => format!("ok:{}", c as usize),
        Err(_) => "err".to_string(),
    }
}

pub fn eval(op: &str, a: &[&str]) -> Option<String> {
    match op {
        "evrrt" => {
            let f: Vec<String> = a.iter().map(|x| st(x)).collect();
            let e = Evr::new(f[0].as_str(), f[1].as_str(), f[2].as_str());
            let ts = e.to_string();
            let nf = e.as_normalized_form();
            let p1 = Evr::parse(&ts);
            let p2 = Evr::parse(&nf);
            Some(format!("{} {} {} {}", h(&ts), h(&nf), evr_obs(&p1, &e), evr_obs(&p2, &e)))
        }
        "nevrart" => {
            let f: Vec<String> = a.iter().map(|x| st(x)).collect();
            let n = Nevra::new(f[0].as_str(), f[1].as_str(), f[2].as_str(), f[3].as_str(), f[4].as_str());
            let ts = n.to_string();
            let nf = n.as_normalized_form();
            let nv = n.nvra();
            let (p1, p2, p3) = (Nevra::parse(&ts), Nevra::parse(&nf), Nevra::parse(&nv));
            Some(format!(
                "{} {} {} {} {} {}",
                h(&ts),
                h(&nf),
                h(&nv),
                nevra_obs(&p1, &n),
                nevra_obs(&p2, &n),
                nevra_obs(&p3, &n)
            ))
        }
        "comprt" => Some(comp_obs(&st(a[0]))),
        "compall" => {
            let items: Vec<String> = VARIANTS
                .iter()
                .map(|c| {
                    let name = c.to_string();
                    format!("{}:{}:{}", *c as usize, h(&name), comp_obs(&name))
                })
                .collect();
            Some(items.join(","))
        }
        "parseany" => {
            let s = st(a[0]);
            let s1 = s.clone();
            let e = guarded(move || {
                let p = Evr::parse(&s1);
                format!("{},{},{}", h(p.epoch()), h(p.version()), h(p.release()))
            })
            .unwrap_or_else(|_| "panic".into());
            let s2 = s.clone();
            let n = guarded(move || {
                let p = Nevra::parse(&s2);
                format!("{},{},{},{},{}", h(p.name()), h(p.epoch()), h(p.version()), h(p.release()), h(p.arch()))
            })
            .unwrap_or_else(|_| "panic".into());
            let s3 = s.clone();
            let c = guarded(move || comp_obs(&s3)).unwrap_or_else(|_| "panic".into());
            Some(format!("{} {} {}", e, n, c))
        }
        _ => None,
    }
}

// pools over the representative alphabet {a, 1, '-', '.', ':', '~'}; each holds guard-violating members
const NAMES_Q: &[&str] = &["a", "a1", "a-1", "a.1", "a-a-1", "1-a", "a.a-1.1", "a~1", "a:1", "a-", "-", ""];
const EPOCHS_Q: &[&str] = &["", "0", "1", "11", "a", ":", "1:", "-", "1-1", "1.1"];
const VERSIONS_Q: &[&str] = &["1", "1.1", "1.1.1", "a", "1~a", "1.a", "~", "", "1-1", "1:1", ":", "-"];
const RELEASES_Q: &[&str] = &["1", "a", "1.a1", "1.1.1", "1~a", ".", "1.", ".1", "", "1-1", "1:1", ":"];
const ARCHS_Q: &[&str] = &["a", "a1", "1", "", "a.1", ".", "a-1", "-", "a:1", ":"];

const NAMES_T: &[&str] = &[
    "a", "a1", "a-1", "a.1", "a-a-1", "1-a", "a.a-1.1", "a~1", "a:1", "a-", "-", "", "--", "a--1", "-a", ".", "a.", ":-", "1",
    "a-1-1-a",
];
const EPOCHS_T: &[&str] = &["", "0", "1", "11", "a", ":", "1:", "-", "1-1", "1.1", "00", "01", ":1", "1-", "~", "1~"];
const VERSIONS_T: &[&str] = &[
    "1", "1.1", "1.1.1", "a", "1~a", "1.a", "~", "", "1-1", "1:1", ":", "-", ".", "1.", "-1", "1-", ":1", "1:", "a1",
];
const RELEASES_T: &[&str] = &[
    "1", "a", "1.a1", "1.1.1", "1~a", ".", "1.", ".1", "", "1-1", "1:1", ":", "-", "..", "1-", "-1", ":1", "1:", "1.1",
];
const ARCHS_T: &[&str] = &["a", "a1", "1", "", "a.1", ".", "a-1", "-", "a:1", ":", "a.", ".a", "a-", "-a", "~", "a~1"];

/// names in the style of real distributions (dashes, dots, plus signs, digits first)
const REAL_NAMES: &[&str] = &[
    "389-ds-base-devel", "python3.9", "libstdc++", "gtk2-immodule-xim", "perl-Foo-Bar", "rpm-sign", "freesrp-udev",
    "rpm-empty", "java-1.8.0-openjdk-headless", "compat-libstdc++-33", "glibc", "kernel-rt-debug-devel", "mingw32-gcc-c++",
    "texlive-l3kernel", "xorg-x11-drv-intel", "R-core", "a", "0ad", "perl-XML-Parser", "golang-github-foo-bar.v2-devel",
    "font(:lang=en)-x", "lib_under.dot+plus-x",
];
const REAL_EPOCHS: &[&str] = &["", "0", "1", "2", "32", "2147483647"];
const REAL_VERSIONS: &[&str] = &["1.3.8.4", "0", "4.15.1", "0.3.0", "3.9.18", "1.0~rc1", "1.0^20240101gitdeadbee", "2.36", "1.8.0.402.b06", "20240101", "1_2+3"];
const REAL_RELEASES: &[&str] = &["15.el7", "0", "1.fc31", "1.25", "1.fc38", "0.1.rc1.el9_3", "1", "150400.3.6.1", "1.module+el8.9.0+1234+abcdef"];
const REAL_ARCHS: &[&str] = &["x86_64", "noarch", "i686", "aarch64", "ppc64le", "s390x", "armv7hl", "src", "riscv64", ""];

const ASSETS: &str = "/repo/test_assets";

fn rpm_files(dir: &std::path::Path, out: &mut Vec<std::path::PathBuf>) {
    if let Ok(rd) = std::fs::read_dir(dir) {
        let mut es: Vec<_> = rd.filter_map(|e| e.ok()).map(|e| e.path()).collect();
        es.sort();
        for p in es {
            if p.is_dir() {
                rpm_files(&p, out);
            } else if p.extension().map(|x| x == "rpm").unwrap_or(false) {
                out.push(p);
            }
        }
    }
}

fn nevrart(ctx: &mut Ctx, n: &str, e: &str, v: &str, r: &str, a: &str) {
    ctx.req(&format!("nevrart {} {} {} {} {}", h(n), h(e), h(v), h(r), h(a)));
}

fn rand_text(rng: &mut Rng) -> String {
    const ATOMS: &[&str] = &[
        "a", "1", "-", ".", ":", "~", "-", ":", ".", "é", "€", "𝄞", " ", "\0", "\n", "Z", "09", "--", "::", "..", "-:", ":-", ".-",
        "x86_64", "noarch", "none", "gzip", "1.fc38", "0:",
    ];
    let n = rng.below(14) as usize;
    (0..n).map(|_| *rng.pick(ATOMS)).collect()
}

pub fn gen(ctx: &mut Ctx) {
    let (si, sn) = ctx.shard;
    // compression types
    if si == 0 {
        ctx.req("compall");
        for c in VARIANTS {
            let name = c.to_string();
            ctx.req(&format!("comprt {}", h(&name)));
            ctx.req(&format!("comprt {}", h(&name.to_uppercase())));
            ctx.req(&format!("comprt {}", h(&format!("{} ", name))));
            ctx.req(&format!("comprt {}", h(&name[..name.len() - 1])));
        }
        for s in ["", "none", "None", "gzip", "zstd", "xz", "bzip2", "lzma", "bz2", "gz", "zst", "identity", "é", "\0"] {
            ctx.req(&format!("comprt {}", h(s)));
        }
    }
    // exhaustive tuples over the pools
    let (names, epochs, versions, releases, archs) = if ctx.thorough {
        (NAMES_T, EPOCHS_T, VERSIONS_T, RELEASES_T, ARCHS_T)
    } else {
        (NAMES_Q, EPOCHS_Q, VERSIONS_Q, RELEASES_Q, ARCHS_Q)
    };
    let mut idx = 0u64;
    for e in epochs {
        for v in versions {
            for r in releases {
                idx += 1;
                if idx % sn == si {
                    ctx.req(&format!("evrrt {} {} {}", h(e), h(v), h(r)));
                }
            }
        }
    }
    for n in names {
        for e in epochs {
            for v in versions {
                for r in releases {
                    for a in archs {
                        idx += 1;
                        if idx % sn == si {
                            nevrart(ctx, n, e, v, r, a);
                        }
                    }
                }
            }
        }
    }
    // the asset packages: their real name / epoch / version / release / arch, and their file names as text
    let mut files = Vec::new();
    rpm_files(std::path::Path::new(ASSETS), &mut files);
    if si == 0 {
        for p in &files {
            if let Ok(pkg) = rpm::Package::open(p) {
                let m = &pkg.metadata;
                let name = m.get_name().unwrap_or("").to_string();
                let epoch = m.get_epoch().map(|e| e.to_string()).unwrap_or_default();
                let version = m.get_version().unwrap_or("").to_string();
                let release = m.get_release().unwrap_or("").to_string();
                let arch = m.get_arch().unwrap_or("").to_string();
                nevrart(ctx, &name, &epoch, &version, &release, &arch);
                nevrart(ctx, &name, "0", &version, &release, &arch);
                nevrart(ctx, &name, "7", &version, &release, &arch);
                ctx.req(&format!("evrrt {} {} {}", h(&epoch), h(&version), h(&release)));
                ctx.req(&format!("evrrt {} {} {}", h("3"), h(&version), h(&release)));
            }
            if let Some(stem) = p.file_stem().and_then(|s| s.to_str()) {
                ctx.req(&format!("parseany {}", h(stem)));
            }
        }
    }
    // real-world style names × real-world style EVRAs
    for n in REAL_NAMES {
        for e in REAL_EPOCHS {
            for v in REAL_VERSIONS {
                for r in REAL_RELEASES {
                    idx += 1;
                    if idx % sn != si {
                        continue;
                    }
                    let a = *ctx.rng.pick(REAL_ARCHS);
                    nevrart(ctx, n, e, v, r, a);
                }
            }
        }
    }
    if si == 0 {
        for e in REAL_EPOCHS {
            for v in REAL_VERSIONS {
                for r in REAL_RELEASES {
                    ctx.req(&format!("evrrt {} {} {}", h(e), h(v), h(r)));
                }
            }
        }
    }
    // seeded random tuples of longer components (incl. multi-byte characters)
    let n_rand = ctx.q(20_000, 400_000) / sn;
    for _ in 0..n_rand {
        let f: Vec<String> = (0..5)
            .map(|_| {
                const ATOMS: &[&str] = &["a", "1", ".", "~", "+", "_", "é", "x86_64", "fc38", "-", ":", "^", "0", "𝄞"];
                let k = ctx.rng.below(5) as usize;
                (0..k).map(|_| *ctx.rng.pick(ATOMS)).collect::<String>()
            })
            .collect();
        nevrart(ctx, &f[0], &f[1], &f[2], &f[3], &f[4]);
        ctx.req(&format!("evrrt {} {} {}", h(&f[1]), h(&f[2]), h(&f[3])));
    }
    // arbitrary text through the three parsers (no-panic part)
    if si == 0 {
        for s in ["", "-", "--", "---", ":", "::", ".", "..", "-:", ":-", "-.", ".-", "-:-.", "é", "é-é-é.é", "𝄞-𝄞:𝄞-𝄞.𝄞", "a-", "-a", "a--", "--a",
            "a-b", "a-b-c", "a-b-c-d", "a-1:2-3.x", "a-1:2-3.", "a-:-.", "\0", "a\n-1-2.x"] {
            ctx.req(&format!("parseany {}", h(s)));
        }
    }
    let n_any = ctx.q(100_000, 2_000_000) / sn;
    for i in 0..n_any {
        let s = if i % 4 == 3 {
            // a well-formed text with one random edit
            let n = Nevra::new(*ctx.rng.pick(REAL_NAMES), *ctx.rng.pick(REAL_EPOCHS), *ctx.rng.pick(REAL_VERSIONS),
                *ctx.rng.pick(REAL_RELEASES), *ctx.rng.pick(REAL_ARCHS));
            let t: Vec<char> = n.to_string().chars().collect();
            let cut = ctx.rng.below(t.len() as u64 + 1) as usize;
            let mut u: String = t[..cut].iter().collect();
            u.push_str(&rand_text(&mut ctx.rng));
            if ctx.rng.chance(1, 2) {
                u.extend(t[cut..].iter());
            }
            u
        } else {
            rand_text(&mut ctx.rng)
        };
        ctx.req(&format!("parseany {}", h(&s)));
    }
}
