//! C02: signature verification never succeeds without a verified signature.
//!
//! ops
//! * `vsig PATTERN B64TABLE BYTES [PKTTABLE]`  `Package::parse(BYTES)?.verify_signature(&recording_verifier)`; the verifier accepts
//!                                      its i-th consult iff PATTERN[i] == '1' (beyond the pattern: reject) and records what it
//!                                      was given. Observation: `ok|err` + `[len:fnv(data):siglen:fnv(sig):acc;…]`, then
//!                                      ` keyids=<id+id|none|err:CLASS>` = `signature_key_ids()` on the same package (its OWN inline
//!                                      base64 decoder, `package.rs:297`, meets every malformed text the first one meets; CLASS =
//!                                      b64 | nosig | issuer-count:N | other) and ` echo=<h|c><len>:<first bytes>;…|-` = what
//!                                      `signature::echo_signature` handed to a Debug logger (scope header-only / header-and-content,
//!                                      `signature.len()`, the printed slice); or `parse-err`.
//!                                      B64TABLE (`text=decoded|!` pairs, what pgp's lenient base64 decoder makes of every OPENPGP
//!                                      entry text) and PKTTABLE (the real signature packets among the entries, as for `sigpkts`)
//!                                      are computed by `gen` for the driver; `eval` ignores them.
//! * `forge02 KEY OFF DEL INS B64TABLE BYTES`  "right key, different data": BYTES (built and signed by the library) with DEL bytes at
//!                                      OFF replaced by INS, and then every recorded digest RECOMPUTED over the edited package
//!                                      (PAYLOADDIGEST in the main header, then SHA256 / SHA1 / MD5 in the signature header; see
//!                                      `forge`), the signatures kept: `verify=ok|err|parse-err forged=<fnv of the forged bytes>`.
//!                                      The digest check cannot stop such a package; only the signature can.
//! * `vorig KEY BYTES`                  the signed package verifies with its own public key: `verify=ok|err|parse-err`
//! * `vflip KEY BIT BYTES`              the same after flipping bit BIT (bit 0 = most significant bit of byte 0)
//! * `vedit KEY OFF DEL INS BYTES`      the same after replacing DEL bytes at OFF by INS
//! * `vobs KEY LABEL BYTES`             regression cases for rpm-rs's own `Verifier` (fix c25de51): hand-made packages whose only
//!                                      signature was made by the test key's SUBKEY (or primary key) over the header or over the
//!                                      EMPTY message, with the issuer id listed once or twice: `verify=ok|err|parse-err`
//! * `sigpkts KEY LABEL KIDS PKTTABLE B64TABLE BLOB BYTES`  (G3: `Verifier::parse_signature`) a hand-made package whose signature blob is
//!                                      a SEQUENCE of OpenPGP packets (junk / garbage-in-a-frame / real signatures in some order, trailing
//!                                      packets or bytes): `keyids=<id+id|none|err> verify=<ok|err> build=<267|268|none|err>` =
//!                                      `signature_key_ids()`, `verify_signature(Verifier of KEY)` and the legacy tag
//!                                      `SignatureHeaderBuilder::new().add_openpgp_signature(BLOB).build()` stores BLOB under.
//!                                      KIDS (key ids of KEY's certificate: primary, subkeys) and PKTTABLE (what the `pgp` crate's
//!                                      parser makes of every single packet, asked DIRECTLY: `N` or `S/<issuers>/<pub alg>/<one bit per
//!                                      key of the certificate: that key verifies this signature over the header>`) are the model's
//!                                      abstract packet parser, computed by `gen` for the driver; `eval` ignores them.
use crate::common::*;
use crate::pkggen::*;
use sha2::Digest as _;
use std::cell::RefCell;
use std::collections::HashMap;

const SIG_OPENPGP: u32 = 278;
const SIG_RSA: u32 = 268;
const SIG_DSA: u32 = 267;
const SIG_PGP: u32 = 1002;
const SIG_SHA256: u32 = 273;
const SIG_SHA1: u32 = 269;
const SIG_MD5: u32 = 1004;
const TAG_PD: u32 = 5092;
const TAG_PDA: u32 = 5093;

/* ---------------------------------------------------------------------------------------------
 * the recording verifier
 * ------------------------------------------------------------------------------------------- */

#[derive(Debug)]
struct Recording {
    pattern: Vec<bool>,
    log: RefCell<Vec<(usize, u64, usize, u64, bool)>>,
}

impl rpm::signature::Verifying for Recording {
    type Signature = Vec<u8>;
    fn verify(&self, mut data: impl std::io::Read, signature: &[u8]) -> Result<(), rpm::Error> {
        let mut buf = Vec::new();
        data.read_to_end(&mut buf)?;
        let i = self.log.borrow().len();
        let acc = self.pattern.get(i).copied().unwrap_or(false);
        self.log.borrow_mut().push((buf.len(), fnv(&buf), signature.len(), fnv(signature), acc));
        if acc {
            Ok(())
        } else {
            Err(rpm::Error::KeyNotFoundError { key_ref: "scripted".into() })
        }
    }
    fn algorithm(&self) -> rpm::signature::AlgorithmType {
        rpm::signature::AlgorithmType::RSA
    }
}

/* a logger that keeps what `signature::echo_signature` formats (Debug level), per thread */
thread_local! {
    static ECHO: RefCell<Vec<String>> = RefCell::new(Vec::new());
}
struct EchoLogger;
impl log::Log for EchoLogger {
    fn enabled(&self, _: &log::Metadata) -> bool { true }
    fn log(&self, r: &log::Record) {
        let text = format!("{}", r.args());
        if text.starts_with("signature_header(") {
            ECHO.with(|e| e.borrow_mut().push(text));
        }
    }
    fn flush(&self) {}
}
static ECHO_LOGGER: EchoLogger = EchoLogger;

/// `scope: [len=N] [ 0xAB, … ] ...` → `<h|c>N:ab…` (values only: which scope, the printed length, the printed bytes)
fn echo_entry(text: &str) -> String {
    let scope = if text.starts_with("signature_header(header only)") { 'h' }
        else if text.starts_with("signature_header(header and content)") { 'c' } else { '?' };
    let len: String = text.split("[len=").nth(1).map(|t| t.chars().take_while(|c| c.is_ascii_digit()).collect()).unwrap_or_default();
    let mut bytes = String::new();
    let tail = text.split("[len=").nth(1).unwrap_or("");
    let mut it = tail.split("0x");
    it.next();
    for t in it {
        let h: String = t.chars().take_while(|c| c.is_ascii_hexdigit()).collect();
        bytes.push_str(&h.to_ascii_lowercase());
    }
    format!("{}{}:{}", scope, len, if bytes.is_empty() { ".".to_string() } else { bytes })
}

/// `signature_key_ids()` as `<id+id|none|err:CLASS>`
fn key_ids_obs(p: &rpm::Package) -> String {
    match p.signature_key_ids() {
        Ok(v) if v.is_empty() => "none".to_string(),
        Ok(v) => v.join("+"),
        Err(rpm::Error::Io(_)) => "err:b64".to_string(),
        Err(rpm::Error::NoSignatureFound) => "err:nosig".to_string(),
        Err(rpm::Error::UnexpectedIssuerCount(n)) => format!("err:issuer-count:{}", n),
        Err(_) => "err:other".to_string(),
    }
}

fn vsig(pattern: &str, bytes: &[u8]) -> String {
    let p = match rpm::Package::parse(&mut &bytes[..]) {
        Ok(p) => p,
        Err(_) => return "parse-err".into(),
    };
    let _ = log::set_logger(&ECHO_LOGGER);
    log::set_max_level(log::LevelFilter::Debug);
    let pat: Vec<bool> = if pattern == "-" { vec![] } else { pattern.bytes().map(|c| c == b'1').collect() };
    let rec = Recording { pattern: pat, log: RefCell::new(vec![]) };
    ECHO.with(|e| e.borrow_mut().clear());
    let r = p.verify_signature(&rec);
    let echoed: Vec<String> = ECHO.with(|e| e.borrow().iter().map(|t| echo_entry(t)).collect());
    log::set_max_level(log::LevelFilter::Off);
    let log: Vec<String> =
        rec.log.borrow().iter().map(|(l, d, sl, s, a)| format!("{}:{:016x}:{}:{:016x}:{}", l, d, sl, s, *a as u8)).collect();
    format!("{}[{}] keyids={} echo={}", if r.is_ok() { "ok" } else { "err" }, log.join(";"), key_ids_obs(&p),
        if echoed.is_empty() { "-".to_string() } else { echoed.join(";") })
}

/* ---------------------------------------------------------------------------------------------
 * real keys
 * ------------------------------------------------------------------------------------------- */

/// (name, secret key, public key, passphrase)
const KEYS: [(&str, &str, &str, Option<&str>); 5] = [
    ("ed25519", "/repo/tests/assets/signing_keys/secret_ed25519.asc", "/repo/tests/assets/signing_keys/public_ed25519.asc", None),
    ("ecdsa_p256", "/repo/tests/assets/signing_keys/secret_ecdsa_p256.asc", "/repo/tests/assets/signing_keys/public_ecdsa_p256.asc", None),
    ("rsa4096", "/repo/tests/assets/signing_keys/secret_rsa4096.asc", "/repo/tests/assets/signing_keys/public_rsa4096.asc", None),
    ("rsa3072p", "/repo/tests/assets/signing_keys/secret_rsa3072_protected.asc", "/repo/tests/assets/signing_keys/public_rsa3072_protected.asc", Some("thisisN0Tasecuredpassphrase")),
    ("rsa_test", "/repo/test_assets/secret_key.asc", "/repo/test_assets/public_key.asc", None),
];

thread_local! {
    static VERIFIERS: RefCell<HashMap<String, rpm::signature::pgp::Verifier>> = RefCell::new(HashMap::new());
}

fn with_verifier<T>(key: &str, f: impl FnOnce(&rpm::signature::pgp::Verifier) -> T) -> Option<T> {
    VERIFIERS.with(|m| {
        let mut m = m.borrow_mut();
        if !m.contains_key(key) {
            let (_, _, public, _) = KEYS.iter().find(|k| k.0 == key)?;
            let raw = std::fs::read(public).ok()?;
            let v = rpm::signature::pgp::Verifier::load_from_asc_bytes(&raw).ok()?;
            m.insert(key.to_string(), v);
        }
        Some(f(m.get(key).unwrap()))
    })
}

fn verify_real(key: &str, bytes: &[u8]) -> Option<String> {
    let p = match rpm::Package::parse(&mut &bytes[..]) {
        Ok(p) => p,
        Err(_) => return Some("verify=parse-err".into()),
    };
    with_verifier(key, |v| match p.verify_signature(v) {
        Ok(()) => "verify=ok".to_string(),
        Err(_) => "verify=err".to_string(),
    })
}

pub fn flip_bit(bytes: &mut [u8], bit: u64) {
    let i = (bit / 8) as usize;
    if i < bytes.len() {
        bytes[i] ^= 0x80u8 >> (bit % 8);
    }
}

pub fn splice(bytes: &[u8], off: usize, del: usize, ins: &[u8]) -> Vec<u8> {
    let off = off.min(bytes.len());
    let end = (off + del).min(bytes.len());
    let mut v = bytes[..off].to_vec();
    v.extend_from_slice(ins);
    v.extend_from_slice(&bytes[end..]);
    v
}

fn be32_at(b: &[u8], i: usize) -> Option<usize> {
    Some(u32::from_be_bytes([*b.get(i)?, *b.get(i + 1)?, *b.get(i + 2)?, *b.get(i + 3)?]) as usize)
}

/// position (in the file) of the data of the FIRST index entry with tag `tag` of the header whose intro starts at `h0`,
/// provided its type is `ty`; and the end of that header's store
fn entry_pos(b: &[u8], h0: usize, tag: u32, ty: u32) -> Option<(usize, usize)> {
    let n = be32_at(b, h0 + 8)?;
    let dl = be32_at(b, h0 + 12)?;
    let store = h0.checked_add(16)?.checked_add(n.checked_mul(16)?)?;
    let end = store.checked_add(dl)?;
    if end > b.len() { return None; }
    for i in 0..n {
        let e = h0 + 16 + 16 * i;
        if be32_at(b, e)? == tag as usize {
            if be32_at(b, e + 4)? != ty as usize { return None; }
            return Some((store.checked_add(be32_at(b, e + 8)?)?, end));
        }
    }
    None
}

/// overwrite `new.len()` bytes at `pos` if they lie inside the store and (for text) a NUL follows them there
fn patch(b: &mut [u8], pos_end: Option<(usize, usize)>, new: &[u8], text: bool) {
    if let Some((pos, end)) = pos_end {
        let stop = pos + new.len();
        if stop + (text as usize) <= end && (!text || b[stop] == 0) {
            b[pos..stop].copy_from_slice(new);
        }
    }
}

/// the forger: edit, then make every recorded digest fit the edited package, leave the signatures alone.
/// 1. splice; 2. if rpm-rs does not parse the result, that is it; 3. PAYLOADDIGEST (first main-header entry with tag 5092, type
/// STRING_ARRAY): its first 64 characters := hex SHA-256 of everything behind the main header; 4. parse again, re-serialise the main
/// header the way `verify_digests` does (`Header::write`) = HB; 5. signature header: SHA256 (273, STRING) := hex SHA-256(HB),
/// SHA1 (269, STRING) := hex SHA-1(HB), MD5 (1004, BIN) := MD5(HB ++ payload). Positions are read from the raw index
/// (first entry with the tag; nothing is patched if its type is another one or the bytes do not lie in the store).
pub fn forge(orig: &[u8], off: usize, del: usize, ins: &[u8]) -> Vec<u8> {
    let mut e = splice(orig, off, del, ins);
    let Ok(m) = rpm::PackageMetadata::parse(&mut &e[..]) else { return e };
    let o = m.get_package_segment_offsets();
    let (h0, p0) = (o.header as usize, o.payload as usize);
    if p0 > e.len() { return e; }
    let pd = hex::encode(sha2::Sha256::digest(&e[p0..]));
    let pos = entry_pos(&e, h0, TAG_PD, 8);
    patch(&mut e, pos, pd.as_bytes(), true);
    let Ok(m) = rpm::PackageMetadata::parse(&mut &e[..]) else { return e };
    // `Header::write` is crate-private: write the metadata and cut the main header out at the reported offsets
    let mut w = Vec::new();
    if m.write(&mut w).is_err() { return e; }
    let o2 = m.get_package_segment_offsets();
    let Some(hb) = w.get(o2.header as usize..o2.payload as usize).map(|x| x.to_vec()) else { return e };
    let mut all = hb.clone();
    all.extend_from_slice(&e[p0..]);
    let s0 = o.signature_header as usize;
    let pos = entry_pos(&e, s0, SIG_SHA256, 6);
    patch(&mut e, pos, hex::encode(sha2::Sha256::digest(&hb)).as_bytes(), true);
    let pos = entry_pos(&e, s0, SIG_SHA1, 6);
    patch(&mut e, pos, hex::encode(sha1::Sha1::digest(&hb)).as_bytes(), true);
    let pos = entry_pos(&e, s0, SIG_MD5, 7);
    patch(&mut e, pos, &md5::Md5::digest(&all), false);
    e
}

pub fn eval(op: &str, a: &[&str]) -> Option<String> {
    match op {
        "vsig" => Some(vsig(a[0], &arg_bytes(a[2]))),
        "forge02" => {
            let b = arg_bytes(a[5]);
            let e = forge(&b, a[1].parse().ok()?, a[2].parse().ok()?, &unhx(a[3]));
            Some(format!("{} forged={:016x}", verify_real(a[0], &e)?, fnv(&e)))
        }
        "vorig" => verify_real(a[0], &arg_bytes(a[1])),
        "vobs" => verify_real(a[0], &arg_bytes(a[2])),
        "sigpkts" => sigpkts(a[0], &arg_bytes(a[5]), &arg_bytes(a[6])),
        "vflip" => {
            let mut b = arg_bytes(a[2]);
            flip_bit(&mut b, a[1].parse().ok()?);
            verify_real(a[0], &b)
        }
        "vedit" => {
            let b = arg_bytes(a[4]);
            let e = splice(&b, a[1].parse().ok()?, a[2].parse().ok()?, &unhx(a[3]));
            verify_real(a[0], &e)
        }
        _ => None,
    }
}

/* ---------------------------------------------------------------------------------------------
 * (a) hand-encoded signature headers
 * ------------------------------------------------------------------------------------------- */

type Ent = (u32, u32, TData);

/// what pgp's decoder (the one `decode_sig` uses) makes of a text
fn b64_decode(text: &[u8]) -> Option<Vec<u8>> {
    use std::io::Read;
    let t = text.to_vec();
    std::panic::catch_unwind(move || {
        let mut out = Vec::new();
        let mut dec = pgp::base64_decoder::Base64Decoder::new(pgp::base64_reader::Base64Reader::new(&t[..]));
        dec.read_to_end(&mut out).ok().map(|_| out)
    })
    .unwrap_or(None)
}

thread_local! {
    /// a REAL signature packet (Ed25519 test key over a fixed message; the algorithm is deterministic): `signature_key_ids`
    /// gets past such an entry, so that a malformed text BEHIND it reaches the second base64 decoder (`package.rs:297`)
    static REAL_SIG: Vec<u8> = sign_with(&KEYS[0], b"vsig: a real signature among the entries").unwrap_or_else(|| vec![0xB1, 2, 3, 4, 5]);
}
fn real_sig() -> Vec<u8> { REAL_SIG.with(|s| s.clone()) }

/// OPENPGP entry texts: 0 well-formed (garbage packet), 1 well-formed (a REAL signature packet); 2 invalid characters; 3 empty;
/// 4 well-formed with line breaks; then (thorough / random): valid prefix + garbage, truncated quantum, padding only,
/// blanks only, leading blank, '=' in the middle, URL-safe alphabet, very long, the real signature broken into lines /
/// followed by garbage / cut inside a quantum
const N_KINDS_Q: usize = 5;
fn entry_text(kind: usize) -> Vec<u8> {
    match kind {
        0 => b"oQID".to_vec(),
        1 => b64_encode(&real_sig()),
        13 => { let t = b64_encode(&real_sig()); let mut v = Vec::new(); for c in t.chunks(20) { v.extend_from_slice(c); v.extend_from_slice(b"\r\n"); } v }
        14 => { let mut t = b64_encode(&real_sig()); t.extend_from_slice(b"$$$"); t }
        15 => { let t = b64_encode(&real_sig()); t[..t.len() - 3].to_vec() }
        2 => b"!!not*base64!!".to_vec(),
        3 => vec![],
        4 => b"wQID\nBAUG\r\n".to_vec(),
        5 => b"0QID$$$".to_vec(),
        6 => b"4QI".to_vec(),
        7 => b"====".to_vec(),
        8 => b" \n ".to_vec(),
        9 => b" oQID".to_vec(),
        10 => b"8Q==ID".to_vec(),
        11 => b"-_-_".to_vec(),
        _ => {
            let mut v = Vec::new();
            for i in 0..40 {
                v.extend_from_slice(b"kZKT");
                if i % 16 == 15 { v.push(b'\n'); }
            }
            v
        }
    }
}
const N_KINDS: usize = 16;

/// state of the OPENPGP slot
#[derive(Clone, Debug)]
enum OState {
    Absent,
    /// wrong data type: BIN / STRING / INT8 / NULL / INT32
    Wrong(u32),
    /// string array (type 8) or i18n string (type 9) with these entry kinds
    Arr(u32, Vec<usize>),
}

/// state of a legacy slot: 0 absent, 1 binary (right), 2.. wrong types
fn legacy_slot(tag: u32, state: u32, sig: &[u8]) -> Vec<Ent> {
    match state {
        0 => vec![],
        1 => vec![(tag, 7, TData::Bytes(sig.to_vec()))],
        2 => vec![(tag, 8, TData::Strs(vec![b"oQID".to_vec()]))],
        3 => vec![(tag, 6, TData::Str(b"oQID".to_vec()))],
        4 => vec![(tag, 2, TData::Bytes(sig.to_vec()))],
        5 => vec![(tag, 0, TData::Null)],
        6 => vec![(tag, 1, TData::Bytes(sig.to_vec()))],
        // duplicates: only the first entry counts
        7 => vec![(tag, 7, TData::Bytes(sig.to_vec())), (tag, 7, TData::Bytes(vec![0xEE, 1]))],
        8 => vec![(tag, 6, TData::Str(b"x".to_vec())), (tag, 7, TData::Bytes(sig.to_vec()))],
        _ => vec![(tag, 7, TData::Bytes(vec![]))], // empty binary
    }
}
const N_LEGACY: u32 = 10;

fn openpgp_slot(o: &OState) -> Vec<Ent> {
    match o {
        OState::Absent => vec![],
        OState::Wrong(ty) => vec![match ty {
            7 => (SIG_OPENPGP, 7, TData::Bytes(vec![0xA1, 2, 3])),
            6 => (SIG_OPENPGP, 6, TData::Str(b"oQID".to_vec())),
            2 => (SIG_OPENPGP, 2, TData::Bytes(b"oQID".to_vec())),
            4 => (SIG_OPENPGP, 4, TData::U32(vec![0x6f514944])),
            _ => (SIG_OPENPGP, 0, TData::Null),
        }],
        OState::Arr(ty, kinds) => vec![(SIG_OPENPGP, *ty, TData::Strs(kinds.iter().map(|k| entry_text(*k)).collect()))],
    }
}

#[derive(Clone, Debug)]
struct Shape {
    o: OState,
    /// a second OPENPGP entry behind the first (must be ignored)
    o_dup: Option<OState>,
    rsa: u32,
    dsa: u32,
    pgp: u32,
    /// SHA256 header digest: 0 correct, 1 wrong, 2 absent, 3 wrong type
    dig: u32,
    /// payload digest in the main header: 0 correct, 1 wrong, 2 absent
    pd: u32,
    /// MD5 / SHA1: 0 absent, 1 correct, 2 wrong
    md5: u32,
    sha1: u32,
    shuffle: bool,
    extra: bool,
}

fn header_of(entries: &[Ent]) -> GHeader {
    let mut h = GHeader::new();
    for (tag, ty, d) in entries {
        h.push(*tag, *ty, d);
    }
    h
}

fn wrong_hex(right: &str) -> Vec<u8> {
    let mut t = right.as_bytes().to_vec();
    t[5] = if t[5] == b'0' { b'1' } else { b'0' };
    t
}

fn build_shape(rng: &mut Rng, s: &Shape) -> (Vec<u8>, Vec<Vec<u8>>) {
    let n = 3 + rng.below(20) as usize;
    let payload = rng.bytes(n);
    let mut main: Vec<Ent> = vec![
        (1000, 6, TData::Str(b"c02".to_vec())),
        (1001, 6, TData::Str(b"1.0".to_vec())),
        (1009, 4, TData::U32(vec![n as u32])),
    ];
    let pd_hex = hex::encode(sha2::Sha256::digest(&payload));
    match s.pd {
        0 => { main.push((TAG_PD, 8, TData::Strs(vec![pd_hex.clone().into_bytes()]))); main.push((TAG_PDA, 4, TData::U32(vec![8]))); }
        1 => { main.push((TAG_PD, 8, TData::Strs(vec![wrong_hex(&pd_hex)]))); main.push((TAG_PDA, 4, TData::U32(vec![8]))); }
        _ => {}
    }
    if s.extra {
        for _ in 0..rng.below(3) {
            let ty = rng.below(10) as u32;
            main.push((1100 + rng.below(40) as u32, ty, rand_data(rng, ty)));
        }
    }
    let hdr = header_of(&main);
    let hb = hdr.bytes();
    let mut all = hb.clone();
    all.extend_from_slice(&payload);
    // signature header
    let mut sig: Vec<Ent> = Vec::new();
    sig.extend(openpgp_slot(&s.o));
    if let Some(d) = &s.o_dup { sig.extend(openpgp_slot(d)); }
    sig.extend(legacy_slot(SIG_RSA, s.rsa, &[0x52, 0x53, 0x41, 1]));
    sig.extend(legacy_slot(SIG_DSA, s.dsa, &[0x44, 0x53, 0x41, 2, 2]));
    sig.extend(legacy_slot(SIG_PGP, s.pgp, &[0x50, 0x47, 0x50, 3, 3, 3]));
    let h256 = hex::encode(sha2::Sha256::digest(&hb));
    match s.dig {
        0 => sig.push((SIG_SHA256, 6, TData::Str(h256.into_bytes()))),
        // a recorded digest that does not match: other digits, or the right digits cut short / extended / absent
        1 => sig.push((SIG_SHA256, 6, TData::Str(match rng.below(6) {
            0 => Vec::new(),
            1 => h256.as_bytes()[..8].to_vec(),
            2 => h256.as_bytes()[..63].to_vec(),
            3 => format!("{}00", h256).into_bytes(),
            _ => wrong_hex(&h256),
        }))),
        3 => sig.push((SIG_SHA256, 7, TData::Bytes(sha2::Sha256::digest(&hb).to_vec()))),
        _ => {}
    }
    match s.md5 {
        1 => sig.push((SIG_MD5, 7, TData::Bytes(md5::Md5::digest(&all).to_vec()))),
        2 => sig.push((SIG_MD5, 7, TData::Bytes(match rng.below(4) {
            0 => md5::Md5::digest(&all)[..15].to_vec(),
            1 => md5::Md5::digest(&all)[..1].to_vec(),
            _ => vec![0; 16],
        }))),
        _ => {}
    }
    let h1 = hex::encode(sha1::Sha1::digest(&hb));
    match s.sha1 {
        1 => sig.push((SIG_SHA1, 6, TData::Str(h1.into_bytes()))),
        2 => sig.push((SIG_SHA1, 6, TData::Str(match rng.below(5) {
            0 => Vec::new(),
            1 => h1.as_bytes()[..39].to_vec(),
            2 => h1.as_bytes()[..2].to_vec(),
            _ => wrong_hex(&h1),
        }))),
        _ => {}
    }
    if s.extra {
        for _ in 0..rng.below(3) {
            let ty = rng.below(10) as u32;
            sig.push((*rng.pick(&[62u32, 270, 271, 1000, 1005, 1007, 274]), ty, rand_data(rng, ty)));
        }
    }
    if s.shuffle {
        // random index order; entries with the same tag keep their relative order (the first one wins)
        let len = sig.len();
        let mut perm: Vec<usize> = (0..len).collect();
        for i in (1..len).rev() {
            let j = rng.below(i as u64 + 1) as usize;
            perm.swap(i, j);
        }
        let mut out: Vec<Ent> = perm.iter().map(|&i| sig[i].clone()).collect();
        let mut tags: Vec<u32> = sig.iter().map(|e| e.0).collect();
        tags.sort();
        tags.dedup();
        for t in tags {
            let slots: Vec<usize> = (0..len).filter(|&i| out[i].0 == t).collect();
            let originals: Vec<Ent> = sig.iter().filter(|e| e.0 == t).cloned().collect();
            for (slot, e) in slots.into_iter().zip(originals) {
                out[slot] = e;
            }
        }
        sig = out;
    }
    let sigh = header_of(&sig);
    let lead = gen_lead(rng, false);
    let bytes = assemble(&lead, &sigh, 0, &hdr, &payload);
    // the texts the OPENPGP string array holds (whichever entry comes first in the index decides; list all)
    let mut texts = Vec::new();
    for o in [Some(&s.o), s.o_dup.as_ref()].into_iter().flatten() {
        if let OState::Arr(_, kinds) = o {
            for k in kinds { texts.push(entry_text(*k)); }
        }
    }
    (bytes, texts)
}

fn hx_dot(b: &[u8]) -> String {
    if b.is_empty() { ".".into() } else { hex::encode(b) }
}

fn table_of(texts: &[Vec<u8>]) -> String {
    let mut seen: Vec<&Vec<u8>> = Vec::new();
    let mut parts = Vec::new();
    for t in texts {
        if seen.contains(&t) { continue; }
        seen.push(t);
        parts.push(format!("{}={}", hx_dot(t), match b64_decode(t) { Some(d) => hx_dot(&d), None => "!".into() }));
    }
    if parts.is_empty() { "-".into() } else { parts.join(",") }
}

/// upper bound on the number of consults a shape can cause
fn max_consults(s: &Shape) -> usize {
    let n = |o: &OState| match o { OState::Arr(_, kinds) => kinds.len(), _ => 0 };
    n(&s.o).max(s.o_dup.as_ref().map(n).unwrap_or(0)).max(3)
}

/// PKTTABLE of `vsig`: the one real signature packet the entry texts can hold (issuers and algorithm asked from the `pgp`
/// crate directly; no certificate: the recording verifier decides by script)
fn vsig_pkt_table() -> String {
    thread_local! { static T: String = vsig_pkt_table_uncached(); }
    T.with(|t| t.clone())
}
fn vsig_pkt_table_uncached() -> String {
    let sig = real_sig();
    match parse_one_packet(&sig) {
        None => "-".to_string(),
        Some(s) => {
            let iss: Vec<String> = s.issuer().iter().map(|k| hex::encode(k.as_ref())).collect();
            format!("{}=S/{}/{}/0", hx_dot(&sig), if iss.is_empty() { "-".to_string() } else { iss.join("+") }, u8::from(s.config.pub_alg))
        }
    }
}

fn emit_shape(ctx: &mut Ctx, seed: u64, s: &Shape, pattern: &str) {
    let mut r = Rng::new(seed);
    let (bytes, texts) = build_shape(&mut r, s);
    ctx.req(&format!("vsig {} {} {} {}", pattern, table_of(&texts), hx(&bytes), vsig_pkt_table()));
}

fn patterns(n: usize) -> Vec<String> {
    if n == 0 {
        return vec!["-".into()];
    }
    (0..(1u32 << n)).map(|m| (0..n).map(|i| if m >> i & 1 == 1 { '1' } else { '0' }).collect()).collect()
}

/* ---------------------------------------------------------------------------------------------
 * (b) packages built and signed by the library
 * ------------------------------------------------------------------------------------------- */

fn signed_package(key: &(&str, &str, &str, Option<&str>)) -> Option<Vec<u8>> {
    let dir = crate::bld::scratch_dir();
    let f1 = dir.join("c02-a.txt");
    let f2 = dir.join("c02-b.bin");
    std::fs::write(&f1, b"hello signature world\n").ok()?;
    std::fs::write(&f2, crate::bld::content(7, 150)).ok()?;
    rpm::verif_hooks::set_now(None);
    rpm::verif_hooks::set_large_file_threshold(None);
    let b = rpm::PackageBuilder::new("c02pkg", "1.0.0", "MIT", "noarch", "signature test package")
        .compression(rpm::CompressionType::None)
        .source_date(1_600_000_000u32)
        .with_file(&f1, rpm::FileOptions::new("/etc/c02/a.txt")).ok()?
        .with_file(&f2, rpm::FileOptions::new("/usr/share/c02/b.bin")).ok()?;
    let raw = std::fs::read(key.1).ok()?;
    let signer = rpm::signature::pgp::Signer::load_from_asc_bytes(&raw).ok()?;
    let signer = match key.3 { Some(p) => signer.with_key_passphrase(p), None => signer };
    let p = b.build_and_sign(signer).ok()?;
    let mut w = Vec::new();
    p.write(&mut w).ok()?;
    Some(w)
}

fn offsets_of(bytes: &[u8]) -> Option<[u64; 5]> {
    let m = rpm::PackageMetadata::parse(&mut &bytes[..]).ok()?;
    let o = m.get_package_segment_offsets();
    Some([o.lead, o.signature_header, o.header, o.payload, bytes.len() as u64])
}

/* ---------------------------------------------------------------------------------------------
 * rpm-rs's own Verifier: subkeys used to be tried on ONE shared reader (repaired by c25de51) — regression cases
 * ------------------------------------------------------------------------------------------- */

fn b64_encode(b: &[u8]) -> Vec<u8> {
    const T: &[u8; 64] = b"ABCDEFGHIJKLMNOPQRSTUVWXYZabcdefghijklmnopqrstuvwxyz0123456789+/";
    let mut o = Vec::new();
    for c in b.chunks(3) {
        let n = (c[0] as u32) << 16 | (*c.get(1).unwrap_or(&0) as u32) << 8 | *c.get(2).unwrap_or(&0) as u32;
        o.push(T[(n >> 18) as usize & 63]);
        o.push(T[(n >> 12) as usize & 63]);
        o.push(if c.len() > 1 { T[(n >> 6) as usize & 63] } else { b'=' });
        o.push(if c.len() > 2 { T[n as usize & 63] } else { b'=' });
    }
    o
}

/// a signature made by the SUBKEY of /repo/test_assets/secret_key.asc over `msg`; with `issuer_twice` a second Issuer
/// subpacket (same key id) is appended to the UNHASHED area, which the signature does not cover
fn subkey_signature(msg: &[u8], issuer_twice: bool) -> Option<Vec<u8>> {
    use pgp::composed::{Deserializable, SignedSecretKey};
    use pgp::types::PublicKeyTrait;
    use rpm::signature::Signing;
    let asc = std::fs::read_to_string("/repo/test_assets/secret_key.asc").ok()?;
    let (sk, _) = SignedSecretKey::from_string(&asc).ok()?;
    let sub = sk.secret_subkeys.first()?.clone();
    let kid = sub.key_id();
    let signer = rpm::signature::pgp::Signer::new(sub).ok()?;
    let raw = signer.sign(msg, rpm::Timestamp::from(1_600_000_000u32)).ok()?;
    if !issuer_twice {
        return Some(raw);
    }
    let mut sig = pgp::packet::PacketParser::new(&raw[..]).find_map(|p| match p {
        Ok(pgp::packet::Packet::Signature(s)) => Some(s),
        _ => None,
    })?;
    sig.config.unhashed_subpackets.push(pgp::packet::Subpacket::regular(pgp::packet::SubpacketData::Issuer(kid)));
    let mut out = Vec::new();
    pgp::packet::write_packet(&mut out, &sig).ok()?;
    Some(out)
}

fn primary_signature(msg: &[u8]) -> Option<Vec<u8>> {
    use rpm::signature::Signing;
    let raw = std::fs::read("/repo/test_assets/secret_key.asc").ok()?;
    let signer = rpm::signature::pgp::Signer::load_from_asc_bytes(&raw).ok()?;
    signer.sign(msg, rpm::Timestamp::from(1_600_000_000u32)).ok()
}

/// hand-encoded package: a main header nobody signed, a correct SHA256 header digest, and `sig_of(header bytes)` as the
/// only OPENPGP entry
fn crafted_package(rng: &mut Rng, sig_of: impl FnOnce(&[u8]) -> Option<Vec<u8>>) -> Option<Vec<u8>> {
    let payload = rng.bytes(24);
    let main: Vec<Ent> = vec![
        (1000, 6, TData::Str(b"not-signed-by-anybody".to_vec())),
        (1001, 6, TData::Str(b"6.6.6".to_vec())),
        (TAG_PD, 8, TData::Strs(vec![hex::encode(sha2::Sha256::digest(&payload)).into_bytes()])),
        (TAG_PDA, 4, TData::U32(vec![8])),
    ];
    let hdr = header_of(&main);
    let hb = hdr.bytes();
    let sig = sig_of(&hb)?;
    let sigh = header_of(&[
        (SIG_OPENPGP, 8, TData::Strs(vec![b64_encode(&sig)])),
        (SIG_SHA256, 6, TData::Str(hex::encode(sha2::Sha256::digest(&hb)).into_bytes())),
    ]);
    Some(assemble(&gen_lead(rng, false), &sigh, 0, &hdr, &payload))
}


/* ---------------------------------------------------------------------------------------------
 * G3: `Verifier::parse_signature` — signature blobs that are a sequence of packets
 * ------------------------------------------------------------------------------------------- */

fn sigpkts(key: &str, blob: &[u8], bytes: &[u8]) -> Option<String> {
    let p = match rpm::Package::parse(&mut &bytes[..]) {
        Ok(p) => p,
        Err(_) => return Some("parse-err".into()),
    };
    let ids = key_ids_obs(&p);
    let ver = with_verifier(key, |v| if p.verify_signature(v).is_ok() { "ok" } else { "err" })?;
    let build = match rpm::SignatureHeaderBuilder::new().add_openpgp_signature(blob.to_vec()).build() {
        Err(_) => "err",
        Ok(h) => {
            if h.get_entry_data_as_binary(rpm::IndexSignatureTag::RPMSIGTAG_RSA).is_ok() { "268" }
            else if h.get_entry_data_as_binary(rpm::IndexSignatureTag::RPMSIGTAG_DSA).is_ok() { "267" }
            else { "none" }
        }
    };
    Some(format!("keyids={} verify={} build={}", ids, ver, build))
}

/// what the `pgp` crate's parser makes of ONE packet — the model's abstract `parsePkt`, asked directly (not through rpm-rs)
fn parse_one_packet(packet: &[u8]) -> Option<pgp::packet::Signature> {
    let pk = packet.to_vec();
    std::panic::catch_unwind(move || match pgp::packet::PacketParser::new(std::io::Cursor::new(&pk[..])).next() {
        Some(Ok(pgp::packet::Packet::Signature(s))) => Some(s),
        _ => None,
    })
    .unwrap_or(None)
}

/// the certificate behind a verifier key: (key ids: primary, subkeys…), and per signature one bit per key: does
/// that key cryptographically accept the signature over `data` (`pgp::Signature::verify`, asked directly)
struct Cert {
    key: pgp::SignedPublicKey,
}
impl Cert {
    fn load(path: &str) -> Option<Cert> {
        use pgp::composed::Deserializable;
        let asc = std::fs::read_to_string(path).ok()?;
        let (key, _) = pgp::SignedPublicKey::from_string(&asc).ok()?;
        Some(Cert { key })
    }
    fn kids(&self) -> Vec<Vec<u8>> {
        use pgp::types::PublicKeyTrait;
        let mut v = vec![self.key.key_id().as_ref().to_vec()];
        for s in &self.key.public_subkeys {
            v.push(s.key_id().as_ref().to_vec());
        }
        v
    }
    fn bits(&self, sig: &pgp::packet::Signature, data: &[u8]) -> String {
        let mut out = String::new();
        let ok = |r: bool| if r { '1' } else { '0' };
        let s1 = sig.clone();
        let (k, d) = (self.key.clone(), data.to_vec());
        out.push(ok(std::panic::catch_unwind(move || s1.verify(&k, &d[..]).is_ok()).unwrap_or(false)));
        for sub in &self.key.public_subkeys {
            let (s1, k, d) = (sig.clone(), sub.clone(), data.to_vec());
            out.push(ok(std::panic::catch_unwind(move || s1.verify(&k, &d[..]).is_ok()).unwrap_or(false)));
        }
        out
    }
}

/// PKTTABLE entry of one packet: `N`, or `S/<issuers>/<alg>/<bits over the header>/<bits over header ++ payload>`
fn pkt_entry(cert: &Cert, packet: &[u8], data: &[u8], data_all: &[u8]) -> String {
    match parse_one_packet(packet) {
        None => format!("{}=N", hx_dot(packet)),
        Some(sig) => {
            let iss: Vec<String> = sig.issuer().iter().map(|k| hex::encode(k.as_ref())).collect();
            format!(
                "{}=S/{}/{}/{}/{}",
                hx_dot(packet),
                if iss.is_empty() { "-".to_string() } else { iss.join("+") },
                u8::from(sig.config.pub_alg),
                cert.bits(&sig, data),
                cert.bits(&sig, data_all)
            )
        }
    }
}

/// (header length, body length) of the packet that starts `b` (RFC 4880 §4.2) — the harness's own reading, used only to
/// take signatures made by the library apart and re-frame them
fn frame_of(b: &[u8]) -> Option<(usize, usize)> {
    let t = *b.first()?;
    if t & 0x80 == 0 { return None; }
    if t & 0x40 != 0 {
        let a = *b.get(1)? as usize;
        if a < 192 { Some((2, a)) }
        else if a < 224 { Some((3, ((a - 192) << 8) + *b.get(2)? as usize + 192)) }
        else if a == 255 { Some((6, u32::from_be_bytes([*b.get(2)?, *b.get(3)?, *b.get(4)?, *b.get(5)?]) as usize)) }
        else { None }
    } else {
        match t & 3 {
            0 => Some((2, *b.get(1)? as usize)),
            1 => Some((3, u16::from_be_bytes([*b.get(1)?, *b.get(2)?]) as usize)),
            2 => Some((5, u32::from_be_bytes([*b.get(1)?, *b.get(2)?, *b.get(3)?, *b.get(4)?]) as usize)),
            _ => Some((1, b.len() - 1)),
        }
    }
}

/// the body of signature packet `sig` under another packet header: old format with 1 / 2 / 4 length octets or
/// indeterminate length, new format with 1 / 2 / 5 length octets (`None` when the length does not fit the style)
fn reframe(sig: &[u8], style: &str) -> Option<Vec<u8>> {
    let (h, n) = frame_of(sig)?;
    let body = sig.get(h..h + n)?;
    let mut v = Vec::new();
    match style {
        "old1" => { if n > 255 { return None; } v.push(0x88); v.push(n as u8); }
        "old2" => { if n > 65535 { return None; } v.push(0x89); v.extend_from_slice(&(n as u16).to_be_bytes()); }
        "old4" => { v.push(0x8a); v.extend_from_slice(&(n as u32).to_be_bytes()); }
        "oldx" => { v.push(0x8b); }
        "new1" => { if n >= 192 { return None; } v.push(0xc2); v.push(n as u8); }
        "new2" => { if !(192..8384).contains(&n) { return None; } v.push(0xc2); v.push(((n - 192) >> 8) as u8 + 192); v.push((n - 192) as u8); }
        _ => { v.push(0xc2); v.push(255); v.extend_from_slice(&(n as u32).to_be_bytes()); }
    }
    v.extend_from_slice(body);
    Some(v)
}

/// one blob: its label, the packets it is MEANT to consist of (what the framing must find), raw bytes appended
/// behind them (not framed: the whole blob must then be refused)
pub struct PktBlob {
    pub label: String,
    pub packets: Vec<Vec<u8>>,
    pub tail: Vec<u8>,
}
impl PktBlob {
    pub fn bytes(&self) -> Vec<u8> {
        let mut v: Vec<u8> = self.packets.concat();
        v.extend_from_slice(&self.tail);
        v
    }
}

fn sign_with(key: &(&str, &str, &str, Option<&str>), msg: &[u8]) -> Option<Vec<u8>> {
    use rpm::signature::Signing;
    let raw = std::fs::read(key.1).ok()?;
    let signer = rpm::signature::pgp::Signer::load_from_asc_bytes(&raw).ok()?;
    let signer = match key.3 { Some(p) => signer.with_key_passphrase(p), None => signer };
    signer.sign(msg, rpm::Timestamp::from(1_600_000_000u32)).ok()
}

/// the compositions of gap G3 for the signature `a` (good: made by the key under test over `msg`), `b` (a real
/// signature over `msg` by ANOTHER key), `e` (by the key under test over the EMPTY message), optional subkey signatures
pub fn packet_blobs(rng: &mut Rng, a: &[u8], b: &[u8], e: &[u8], sub: Option<(&[u8], &[u8])>) -> Vec<PktBlob> {
    let uid: Vec<u8> = vec![0xb4, 3, b'a', b'b', b'c'];
    let marker: Vec<u8> = vec![0xca, 3, b'P', b'G', b'P'];
    let n1 = 4 + rng.below(40) as usize;
    let mut g_old = vec![0x88, n1 as u8];               // signature tag, old format, garbage body
    g_old.extend(rng.bytes(n1));
    let n2 = 1 + rng.below(100) as usize;
    let mut g_new = vec![0xc2, n2 as u8];               // signature tag, new format, garbage body
    g_new.extend(rng.bytes(n2));
    let mut g_unk = vec![0xfe, 3];                      // new format, tag 62 (unassigned)
    g_unk.extend(rng.bytes(3));
    let zero: Vec<u8> = vec![0x88, 0];                  // signature packet without a body
    let mut g_cut = a[..a.len() / 2].to_vec();          // the first half of the real signature in a frame of its own
    g_cut = { let mut v = vec![0x8a]; v.extend_from_slice(&(g_cut.len() as u32).to_be_bytes()); v.extend(g_cut); v };
    let (a, b, e) = (a.to_vec(), b.to_vec(), e.to_vec());
    let mut out: Vec<PktBlob> = Vec::new();
    let mut add = |label: &str, packets: Vec<&Vec<u8>>, tail: &[u8]| {
        out.push(PktBlob { label: label.to_string(), packets: packets.into_iter().cloned().collect(), tail: tail.to_vec() })
    };
    add("single", vec![&a], &[]);
    add("junk-sig", vec![&uid, &a], &[]);
    add("junk-junk-sig", vec![&marker, &uid, &a], &[]);
    add("garbage-old-sig", vec![&g_old, &a], &[]);
    add("garbage-new-sig", vec![&g_new, &a], &[]);
    add("garbage-unknown-tag-sig", vec![&g_unk, &a], &[]);
    add("garbage-zero-body-sig", vec![&zero, &a], &[]);
    add("garbage-half-sig-sig", vec![&g_cut, &a], &[]);
    add("sig-othersig", vec![&a, &b], &[]);
    add("othersig-sig", vec![&b, &a], &[]);
    add("othersig", vec![&b], &[]);
    add("sig-junk", vec![&a, &uid], &[]);
    add("sig-garbage", vec![&a, &g_old], &[]);
    add("sig-sig", vec![&a, &a], &[]);
    add("sig-emptymsgsig", vec![&a, &e], &[]);
    add("sig-junk-junk-othersig", vec![&a, &uid, &marker, &b], &[]);
    add("emptymsgsig-sig", vec![&e, &a], &[]);
    add("junk-emptymsgsig-sig", vec![&uid, &e, &a], &[]);
    add("emptymsgsig", vec![&e], &[]);
    add("sig-then-zero-byte", vec![&a], &[0x00]);
    add("sig-then-text", vec![&a], b"trailer");
    add("sig-then-truncated-header", vec![&a], &[0x89, 0x02]);
    add("sig-then-oversize-packet", vec![&a], &[0x88, 5, 1]);
    add("sig-then-partial-length", vec![&a], &[0xc2, 0xe0, 1]);
    add("junk-then-zero-byte", vec![&uid], &[0x00]);
    add("truncated-sig", vec![], &a[..a.len() - 1]);
    add("junk-truncated-sig", vec![&uid], &a[..a.len() - 1]);
    add("nosig-junk-junk", vec![&uid, &marker], &[]);
    add("nosig-garbage", vec![&g_old], &[]);
    add("nosig-empty", vec![], &[]);
    for style in ["old1", "old2", "old4", "oldx", "new1", "new2", "new5"] {
        if let Some(r) = reframe(&a, style) {
            add(&format!("reframed-{}", style), vec![&r], &[]);
            add(&format!("junk-reframed-{}", style), vec![&uid, &r], &[]);
            if style == "oldx" {
                // indeterminate length: the packet reaches to the end of the blob, whatever follows belongs to it
                let mut sw = r.clone();
                sw.extend_from_slice(&uid);
                add("reframed-oldx-swallows-junk", vec![&sw], &[]);
                let mut sw = r.clone();
                sw.extend_from_slice(&b);
                add("reframed-oldx-swallows-othersig", vec![&sw], &[]);
            } else {
                add(&format!("reframed-{}-othersig", style), vec![&r, &b], &[]);
            }
        }
    }
    if let Some((s1, s2)) = sub {
        let (s1, s2) = (s1.to_vec(), s2.to_vec());
        add("subkeysig", vec![&s1], &[]);
        add("junk-subkeysig", vec![&uid, &s1], &[]);
        add("subkeysig-sig", vec![&s1, &a], &[]);
        add("sig-subkeysig", vec![&a, &s1], &[]);
        add("othersig-subkeysig", vec![&b, &s1], &[]);
        add("subkeysig-issuer-twice-junk", vec![&s2, &uid], &[]);
    }
    out
}

/// the same compositions over real signatures of all test keys on a fixed message — for C04 (framing of hostile
/// signature blobs: `pgpframes`, and the allocation-counted read side on packages that carry them)
pub fn packet_blobs_all_keys(seed: u64) -> Vec<PktBlob> {
    let msg = b"signature blob of several packets";
    let good: Vec<Option<Vec<u8>>> = KEYS.iter().map(|k| sign_with(k, msg)).collect();
    let mut out = Vec::new();
    for (ki, key) in KEYS.iter().enumerate() {
        let (Some(a), Some(b)) = (good[ki].clone(), good[(ki + 1) % KEYS.len()].clone()) else { continue };
        let Some(e) = sign_with(key, &[]) else { continue };
        let mut blobs = packet_blobs(&mut Rng::new(seed ^ 0xC04_63 ^ ((ki as u64) << 16)), &a, &b, &e, None);
        for pb in blobs.iter_mut() { pb.label = format!("{}:{}", key.0, pb.label); }
        out.extend(blobs);
    }
    out
}

pub fn b64_text(b: &[u8]) -> Vec<u8> { b64_encode(b) }

fn emit_sigpkts(ctx: &mut Ctx, seed: u64, sn: u64, si: u64, idx: &mut u64) {
    // one unsigned main header for all keys; every signature is made over its bytes (or over header ++ payload, for RPMSIGTAG_PGP)
    let mut r = Rng::new(seed ^ 0x6_3333);
    let payload = r.bytes(24);
    let main: Vec<Ent> = vec![
        (1000, 6, TData::Str(b"several-packets".to_vec())),
        (1001, 6, TData::Str(b"3.3.3".to_vec())),
        (TAG_PD, 8, TData::Strs(vec![hex::encode(sha2::Sha256::digest(&payload)).into_bytes()])),
        (TAG_PDA, 4, TData::U32(vec![8])),
    ];
    let hdr = header_of(&main);
    let hb = hdr.bytes();
    let mut all = hb.clone();
    all.extend_from_slice(&payload);
    let lead = gen_lead(&mut r, false);
    let digest: Ent = (SIG_SHA256, 6, TData::Str(hex::encode(sha2::Sha256::digest(&hb)).into_bytes()));
    let good: Vec<Option<Vec<u8>>> = KEYS.iter().map(|k| sign_with(k, &hb)).collect();
    let good_all: Vec<Option<Vec<u8>>> = KEYS.iter().map(|k| sign_with(k, &all)).collect();
    for (ki, key) in KEYS.iter().enumerate() {
        let label_fail = |ctx: &mut Ctx, why: &str| ctx.emit(&format!("sigpkts {} {} - - - - -", key.0, why), "cannot-build");
        let (Some(a), Some(b)) = (good[ki].clone(), good[(ki + 1) % KEYS.len()].clone()) else { label_fail(ctx, "cannot-sign"); continue };
        let (Some(a_all), Some(b_all)) = (good_all[ki].clone(), good_all[(ki + 1) % KEYS.len()].clone()) else { label_fail(ctx, "cannot-sign"); continue };
        let Some(e) = sign_with(key, &[]) else { label_fail(ctx, "cannot-sign"); continue };
        let Some(cert) = Cert::load(key.2) else { label_fail(ctx, "cannot-load-certificate"); continue };
        let sub = if key.0 == "rsa_test" {
            match (subkey_signature(&hb, false), subkey_signature(&hb, true)) { (Some(x), Some(y)) => Some((x, y)), _ => None }
        } else { None };
        let sub_all = if key.0 == "rsa_test" {
            match (subkey_signature(&all, false), subkey_signature(&all, true)) { (Some(x), Some(y)) => Some((x, y)), _ => None }
        } else { None };
        let kids: Vec<String> = cert.kids().iter().map(|k| hex::encode(k)).collect();
        let table_of_packets = |packets: &[Vec<u8>]| -> String {
            let mut seen: Vec<&Vec<u8>> = Vec::new();
            let mut entries: Vec<String> = Vec::new();
            for p in packets {
                if seen.contains(&p) { continue; }
                seen.push(p);
                entries.push(pkt_entry(&cert, p, &hb, &all));
            }
            if entries.is_empty() { "-".to_string() } else { entries.join(",") }
        };
        let blobs = packet_blobs(&mut Rng::new(seed ^ 0x6_3333 ^ ((ki as u64) << 16)), &a, &b, &e, sub.as_ref().map(|(x, y)| (&x[..], &y[..])));
        for (bi, pb) in blobs.iter().enumerate() {
            let blob = pb.bytes();
            // placements: the OPENPGP string array (base64 text) always; the legacy binary tags and a two-entry array for some;
            // a signature whose issuer is listed twice under EVERY legacy tag (`package.rs:350-353`)
            let mut placements: Vec<&str> = vec!["openpgp"];
            if pb.label.contains("issuer-twice") { placements.extend(["rsa", "dsa", "pgp"]); }
            else { match bi % 4 { 0 => placements.push("rsa"), 1 => placements.push("dsa"), 2 => placements.push("openpgp2"), _ => {} } }
            for pl in placements {
                *idx += 1;
                if (*idx - 1) % sn != si { continue; }
                let mut texts: Vec<Vec<u8>> = Vec::new();
                let mut packets: Vec<Vec<u8>> = pb.packets.clone();
                let sig: Vec<Ent> = match pl {
                    "openpgp" => { texts.push(b64_encode(&blob)); vec![(SIG_OPENPGP, 8, TData::Strs(texts.clone())), digest.clone()] }
                    "openpgp2" => {
                        // a second entry: the good signature alone (every entry must verify; key ids are listed per entry)
                        texts.push(b64_encode(&blob));
                        texts.push(b64_encode(&a));
                        packets.push(a.clone());
                        vec![(SIG_OPENPGP, 8, TData::Strs(texts.clone())), digest.clone()]
                    }
                    "rsa" => vec![(SIG_RSA, 7, TData::Bytes(blob.clone())), digest.clone()],
                    "pgp" => vec![(SIG_PGP, 7, TData::Bytes(blob.clone())), digest.clone()],
                    _ => vec![(SIG_DSA, 7, TData::Bytes(blob.clone())), digest.clone()],
                };
                if pl != "openpgp" && pl != "openpgp2" && blob.is_empty() { continue; }
                let pkg = assemble(&lead, &header_of(&sig), 0, &hdr, &payload);
                ctx.req(&format!("sigpkts {} {}@{} {} {} {} {} {}", key.0, pb.label, pl, kids.join(","), table_of_packets(&packets), table_of(&texts), hx(&blob), hx(&pkg)));
            }
        }
        // RPMSIGTAG_PGP: the legacy header+payload signature. The same compositions over signatures made for header ++ payload,
        // stored as the binary under tag 1002: the real verifier is handed `Cursor(header).chain(Cursor(content))` and ACCEPTS
        // where the first signature packet is the good one (`package.rs:418-426`)
        let blobs_all = packet_blobs(&mut Rng::new(seed ^ 0x6_3333 ^ ((ki as u64) << 16) ^ 0x1002), &a_all, &b_all, &e,
            sub_all.as_ref().map(|(x, y)| (&x[..], &y[..])));
        for pb in blobs_all.iter() {
            let blob = pb.bytes();
            *idx += 1;
            if (*idx - 1) % sn != si || blob.is_empty() { continue; }
            let sig: Vec<Ent> = vec![(SIG_PGP, 7, TData::Bytes(blob.clone())), digest.clone()];
            let pkg = assemble(&lead, &header_of(&sig), 0, &hdr, &payload);
            ctx.req(&format!("sigpkts {} {}@pgpall {} {} - {} {}", key.0, pb.label, kids.join(","), table_of_packets(&pb.packets), hx(&blob), hx(&pkg)));
        }
        // three DIFFERENT blobs under RSA, DSA and PGP at once: `verify_signature` consults DSA, RSA (header) and PGP (header ++
        // payload) in that order and all must be accepted; `signature_key_ids` reports the LAST readable tag's signature
        // (RSA, then DSA, then PGP overrides), even when that one holds no signature packet or names two issuers
        let uid: Vec<u8> = vec![0xb4, 3, b'a', b'b', b'c'];
        let junk_a: Vec<u8> = [uid.clone(), a.clone()].concat();
        let a_re = reframe(&a, "old4").unwrap_or_else(|| a.clone());
        let nosig: Vec<u8> = [uid.clone(), vec![0xca, 3, b'P', b'G', b'P']].concat();
        let mut triples: Vec<(&str, Vec<u8>, Vec<u8>, Vec<u8>)> = vec![
            ("all-good", a.clone(), junk_a.clone(), a_all.clone()),
            ("rsa-other-key", b.clone(), a.clone(), a_all.clone()),
            ("pgp-other-key", a.clone(), a_re.clone(), b_all.clone()),
            ("pgp-no-signature-packet", a.clone(), b.clone(), nosig.clone()),
            ("pgp-header-only-signature", a_re.clone(), junk_a.clone(), a.clone()),
            ("dsa-empty-message", a.clone(), e.clone(), a_all.clone()),
            ("rsa-no-signature-packet", nosig.clone(), a.clone(), a_all.clone()),
            ("rsa-dsa-swapped-data", a_all.clone(), a.clone(), a_all.clone()),
        ];
        if let (Some((_, s2)), Some((s1a, s2a))) = (sub.as_ref(), sub_all.as_ref()) {
            triples.push(("pgp-subkeysig-issuer-twice", a.clone(), a_re.clone(), s2a.clone()));
            triples.push(("pgp-subkeysig", a.clone(), a_re.clone(), s1a.clone()));
            triples.push(("rsa-subkeysig-issuer-twice", s2.clone(), a.clone(), a_all.clone()));
        }
        for (label, x_rsa, x_dsa, x_pgp) in triples {
            // subsets too: which of the three tags is present (the PGP one always: it is what the two functions treat differently)
            for mask in [7u32, 5, 6, 4] {
                *idx += 1;
                if (*idx - 1) % sn != si { continue; }
                let mut sig: Vec<Ent> = Vec::new();
                let mut blobs3: Vec<&Vec<u8>> = Vec::new();
                if mask & 1 != 0 { sig.push((SIG_RSA, 7, TData::Bytes(x_rsa.clone()))); blobs3.push(&x_rsa); }
                if mask & 2 != 0 { sig.push((SIG_DSA, 7, TData::Bytes(x_dsa.clone()))); blobs3.push(&x_dsa); }
                sig.push((SIG_PGP, 7, TData::Bytes(x_pgp.clone()))); blobs3.push(&x_pgp);
                sig.push(digest.clone());
                // the packets the three blobs consist of (the harness's own framing of what it put together)
                let mut packets: Vec<Vec<u8>> = Vec::new();
                for bl in blobs3 {
                    let mut rest: &[u8] = &bl[..];
                    while let Some((h, n)) = frame_of(rest) {
                        if h + n > rest.len() || h + n == 0 { break; }
                        packets.push(rest[..h + n].to_vec());
                        rest = &rest[h + n..];
                    }
                }
                let pkg = assemble(&lead, &header_of(&sig), 0, &hdr, &payload);
                ctx.req(&format!("sigpkts {} {}@legacy3-{} {} {} - {} {}", key.0, label, mask, kids.join(","), table_of_packets(&packets), hx(&x_pgp), hx(&pkg)));
            }
        }
    }
}

pub fn gen(ctx: &mut Ctx) {
    let (si, sn) = ctx.shard;
    let mut idx: u64 = 0;
    macro_rules! mine { () => {{ idx += 1; (idx - 1) % sn == si }}; }
    let seed = ctx.seed;

    /* ---------------- regression cases for `Verifier::verify` (first, so that the outcomes appear among the
       evidence samples): a signature over the EMPTY message must never make an unsigned header verify ---------------- */
    if si == 0 {
        for rep in 0..ctx.q(1u64, 4) {
            let mut r = Rng::new(seed ^ 0x5B ^ (rep << 8));
            type SigOf = Box<dyn FnOnce(&[u8]) -> Option<Vec<u8>>>;
            let cases: Vec<(&str, SigOf)> = vec![
                // controls: the subkey signs the header bytes → verifies, also with the issuer id listed twice
                ("subkey-signed-header", Box::new(|hb: &[u8]| subkey_signature(hb, false))),
                ("subkey-signed-header-issuer-twice", Box::new(|hb: &[u8]| subkey_signature(hb, true))),
                // a subkey signature over the EMPTY message, presented for an arbitrary header → rejected
                ("subkey-signed-empty-message", Box::new(|_: &[u8]| subkey_signature(&[], false))),
                // the same signature with its issuer id listed a second time in the unhashed area: accepted before c25de51
                ("subkey-signed-empty-message-issuer-twice", Box::new(|_: &[u8]| subkey_signature(&[], true))),
                // the primary key over the empty message
                ("primary-signed-empty-message", Box::new(|_: &[u8]| primary_signature(&[]))),
                // blobs that hold NO signature packet at all (well-framed OpenPGP packets of other kinds, text, nothing):
                // nobody signed anything, whatever the verifier does with them
                ("no-signature-packet-userid", Box::new(|_: &[u8]| Some(vec![0xb4, 3, b'a', b'b', b'c']))),
                ("no-signature-packet-marker", Box::new(|_: &[u8]| Some(vec![0xca, 3, b'P', b'G', b'P']))),
                ("no-signature-packet-two-packets", Box::new(|_: &[u8]| Some(vec![0xb4, 1, b'x', 0xca, 3, b'P', b'G', b'P']))),
                ("no-signature-packet-text", Box::new(|_: &[u8]| Some(b"this is not a signature".to_vec()))),
                ("no-signature-packet-empty", Box::new(|_: &[u8]| Some(Vec::new()))),
                ("no-signature-packet-zero-length-sig", Box::new(|_: &[u8]| Some(vec![0x88, 0]))),
            ];
            for (label, f) in cases {
                match crafted_package(&mut r, f) {
                    Some(pkg) => ctx.req(&format!("vobs rsa_test {} {}", label, hx(&pkg))),
                    None => ctx.emit(&format!("vobs rsa_test {} -", label), "cannot-build"),
                }
            }
        }
    }

    /* ---------------- G3: signature blobs made of several packets (`Verifier::parse_signature`) ---------------- */
    emit_sigpkts(ctx, seed, sn, si, &mut idx);

    /* ---------------- (a) exhaustive product of signature-header shapes ---------------- */
    // OPENPGP states
    let mut ostates: Vec<OState> = vec![OState::Absent, OState::Wrong(7), OState::Wrong(6), OState::Arr(8, vec![])];
    if ctx.thorough {
        ostates.extend([OState::Wrong(2), OState::Wrong(0), OState::Wrong(4), OState::Arr(9, vec![]), OState::Arr(9, vec![0, 1])]);
    }
    ostates.push(OState::Arr(9, vec![0])); // I18NSTRING is accepted by the string-array getter
    let nk = N_KINDS_Q;
    for a in 0..nk {
        ostates.push(OState::Arr(8, vec![a]));
    }
    for a in 0..nk {
        for b in 0..nk {
            ostates.push(OState::Arr(8, vec![a, b]));
        }
    }
    {
        let mut r = Rng::new(seed ^ 0xC02_0003);
        for a in 0..nk {
            for b in 0..nk {
                for c in 0..nk {
                    // quick: a seeded fifth of the 125 triples (all-valid triples always); thorough: all
                    let all_valid = [a, b, c].iter().all(|k| [0usize, 1, 4].contains(k));
                    if ctx.thorough || all_valid || r.chance(1, 5) {
                        ostates.push(OState::Arr(8, vec![a, b, c]));
                    }
                }
            }
        }
    }
    let dig_states: &[u32] = if ctx.thorough { &[0, 1, 2, 3] } else { &[0, 1] };
    let mut shape_no: u64 = 0;
    for o in &ostates {
        for legacy in 0..27u32 {
            // {absent, right type, wrong type}: the wrong type rotates through the wrong-type variants
            let st = |x: u32, salt: u32| match x { 0 => 0, 1 => 1, _ => 2 + (salt + legacy) % 5 };
            for &dig in dig_states {
                shape_no += 1;
                let s = Shape {
                    o: o.clone(), o_dup: None,
                    rsa: st(legacy % 3, 0), dsa: st(legacy / 3 % 3, 1), pgp: st(legacy / 9 % 3, 2),
                    dig, pd: 0, md5: 0, sha1: 0, shuffle: false, extra: false,
                };
                let n = match &s.o {
                    OState::Arr(_, k) => k.len(),
                    _ => [s.rsa, s.dsa, s.pgp].iter().filter(|x| **x == 1).count(),
                };
                // all accept patterns of the length that can matter (+ one longer, + the empty pattern)
                let mut pats = patterns(n);
                if n > 0 { pats.push("-".into()); }
                if n < 4 { pats.push("1".repeat(n + 1)); }
                for p in pats {
                    if mine!() { emit_shape(ctx, seed ^ (shape_no << 8) ^ 0xC02, &s, &p); }
                }
            }
        }
    }

    /* ---------------- seeded random shapes: everything varies ---------------- */
    for i in 0..ctx.q(4000u64, 40_000) {
        let mut r = Rng::new(seed ^ (i << 12) ^ 0x5EED_C02);
        let rand_o = |r: &mut Rng| -> OState {
            match r.below(10) {
                0 => OState::Absent,
                1 => OState::Wrong(*r.pick(&[7u32, 6, 2, 0, 4])),
                _ => {
                    let n = r.below(5) as usize;
                    let ty = if r.chance(1, 6) { 9 } else { 8 };
                    OState::Arr(ty, (0..n).map(|_| if r.chance(2, 3) { *r.pick(&[0usize, 1, 4]) } else { r.below(N_KINDS as u64) as usize }).collect())
                }
            }
        };
        let rand_l = |r: &mut Rng| -> u32 { match r.below(5) { 0 | 1 => 0, 2 | 3 => 1, _ => 2 + r.below(N_LEGACY as u64 - 2) as u32 } };
        let o = if r.chance(1, 3) { r.pick(&[OState::Absent, OState::Wrong(7), OState::Wrong(6)]).clone() } else { rand_o(&mut r) };
        let s = Shape {
            o,
            o_dup: if r.chance(1, 6) { Some(rand_o(&mut r)) } else { None },
            rsa: rand_l(&mut r), dsa: rand_l(&mut r), pgp: rand_l(&mut r),
            dig: *r.pick(&[0u32, 0, 0, 0, 1, 2, 3]),
            pd: *r.pick(&[0u32, 0, 0, 1, 2]),
            md5: *r.pick(&[0u32, 0, 1, 1, 2]),
            sha1: *r.pick(&[0u32, 0, 1, 1, 2]),
            shuffle: r.chance(1, 2),
            extra: r.chance(1, 2),
        };
        let n = max_consults(&s) + 1;
        let plen = r.below(n as u64 + 1) as usize;
        let pat: String = if plen == 0 { "-".into() } else { (0..plen).map(|_| if r.chance(3, 4) { '1' } else { '0' }).collect() };
        if mine!() { emit_shape(ctx, seed ^ (i << 20) ^ 0xABC02, &s, &pat); }
    }

    /* ---------------- (b) the real verifier on modified signed packages ---------------- */
    let _ = std::fs::create_dir_all("work");
    for (ki, key) in KEYS.iter().enumerate() {
        let Some(pkg) = signed_package(key) else {
            // cannot sign: make it visible as a broken tie, not as silence
            if mine!() { ctx.emit(&format!("vorig {} -", key.0), "cannot-sign"); }
            continue;
        };
        let Some(o) = offsets_of(&pkg) else { continue };
        // quick: inline hex (self-contained replays); thorough: by file reference (line size)
        let arg = if ctx.thorough {
            let p = format!("work/c02-{}-s{}of{}.bin", key.0, si, sn);
            std::fs::write(&p, &pkg).expect("write blob");
            format!("@{}", p)
        } else {
            hx(&pkg)
        };
        if mine!() { ctx.req(&format!("vorig {} {}", key.0, arg)); }
        // single-bit flips of the header and payload regions
        let step = ctx.q(7u64, 1);
        let mut bit = o[2] * 8 + (seed + ki as u64) % step;
        while bit < o[4] * 8 {
            if mine!() { ctx.req(&format!("vflip {} {} {}", key.0, bit, arg)); }
            bit += step;
        }
        // a sample outside (lead, signature header): no verdict there, but the real verifier is exercised
        let step = ctx.q(97u64, 11);
        let mut bit = (seed + ki as u64) % step;
        while bit < o[2] * 8 {
            if mine!() { ctx.req(&format!("vflip {} {} {}", key.0, bit, arg)); }
            bit += step;
        }
        // random multi-byte edits inside header and payload: overwrite / delete / insert / truncate / append
        let mut r = Rng::new(seed ^ 0xED17 ^ ((ki as u64) << 32));
        let (lo, hi) = (o[2], o[4]);
        for _ in 0..ctx.q(250u64, 4000) {
            let off = lo + r.below(hi - lo);
            let k = 1 + r.below(8);
            let (del, ins): (u64, Vec<u8>) = match r.below(8) {
                0 | 1 | 2 => (k.min(hi - off), r.bytes(k.min(hi - off) as usize)),      // overwrite with random bytes
                3 => { let n = k.min(hi - off); (n, pkg[off as usize..(off + n) as usize].iter().map(|b| b ^ (1 << r.below(8))).collect()) } // flip one bit per byte
                4 => (k.min(hi - off), vec![]),                                          // delete
                5 => (0, r.bytes(k as usize)),                                           // insert
                6 => (hi - off, vec![]),                                                 // truncate here
                _ => (0, vec![0u8; k as usize]),                                         // insert zeros
            };
            if mine!() { ctx.req(&format!("vedit {} {} {} {} {}", key.0, off, del, hx(&ins), arg)); }
        }
        // STRUCTURED edits of the signed main header: index entries added behind the last one with their data behind the region
        // trailer (counts in the intro raised) — the header still parses and the getters serve the new entries, so verification
        // must fail (seed C02-9: signatures and header digests computed over the immutable region only). One splice from the
        // intro's count fields to the end of the header.
        {
            let h0 = o[2] as usize;
            let n = u32::from_be_bytes([pkg[h0 + 8], pkg[h0 + 9], pkg[h0 + 10], pkg[h0 + 11]]) as usize;
            let dl = u32::from_be_bytes([pkg[h0 + 12], pkg[h0 + 13], pkg[h0 + 14], pkg[h0 + 15]]) as usize;
            let index = &pkg[h0 + 16..h0 + 16 + 16 * n];
            let store = &pkg[h0 + 16 + 16 * n..h0 + 16 + 16 * n + dl];
            if h0 + 16 + 16 * n + dl == o[3] as usize {
                // (tag, type, data): a %post scriptlet, an unknown tag, an INT32 (4-aligned), a tag that sorts before the others
                let adds: [&[(u32, u32, &[u8])]; 4] = [
                    &[(1024, 6, b"echo injected\0")],
                    &[(70000, 6, b"x\0")],
                    &[(1024, 6, b"a\0"), (1003, 4, &[0, 0, 0, 7])],
                    &[(101, 6, b"early\0")],
                ];
                for add in adds.iter() {
                    let mut new_index = index.to_vec();
                    let mut new_store = store.to_vec();
                    for (tag, ty, data) in add.iter() {
                        if *ty == 4 { while new_store.len() % 4 != 0 { new_store.push(0); } }
                        new_index.extend_from_slice(&tag.to_be_bytes());
                        new_index.extend_from_slice(&ty.to_be_bytes());
                        new_index.extend_from_slice(&(new_store.len() as u32).to_be_bytes());
                        new_index.extend_from_slice(&1u32.to_be_bytes());
                        new_store.extend_from_slice(data);
                    }
                    let mut ins = Vec::new();
                    ins.extend_from_slice(&((n + add.len()) as u32).to_be_bytes());
                    ins.extend_from_slice(&(new_store.len() as u32).to_be_bytes());
                    ins.extend_from_slice(&new_index);
                    ins.extend_from_slice(&new_store);
                    if mine!() { ctx.req(&format!("vedit {} {} {} {} {}", key.0, h0 + 8, 8 + 16 * n + dl, hx(&ins), arg)); }
                    if mine!() { ctx.req(&format!("forge02 {} {} {} {} {} {}", key.0, h0 + 8, 8 + 16 * n + dl, hx(&ins),
                        table_of(&rpm::Package::parse(&mut &pkg[..]).ok()
                            .and_then(|p| p.metadata.signature.get_entry_data_as_string_array(rpm::IndexSignatureTag::RPMSIGTAG_OPENPGP).ok().map(|v| v.iter().map(|t| t.as_bytes().to_vec()).collect::<Vec<_>>()))
                            .unwrap_or_default()), arg)); }
                }
            }
        }
        // append after the payload
        for k in [1usize, 2, 7, 64] {
            let ins = r.bytes(k);
            if mine!() { ctx.req(&format!("vedit {} {} 0 {} {}", key.0, hi, hx(&ins), arg)); }
        }

        /* ---------------- (b2) right key, different data: the same kinds of edits, but every recorded digest is RECOMPUTED
           afterwards (`forge`), so `verify_digests` passes and only the signature check is left to refuse ---------------- */
        let texts: Vec<Vec<u8>> = rpm::Package::parse(&mut &pkg[..]).ok()
            .and_then(|p| p.metadata.signature.get_entry_data_as_string_array(rpm::IndexSignatureTag::RPMSIGTAG_OPENPGP).ok().map(|v| v.iter().map(|t| t.as_bytes().to_vec()).collect()))
            .unwrap_or_default();
        let tbl = table_of(&texts);
        if mine!() { ctx.req(&format!("forge02 {} 0 0 - {} {}", key.0, tbl, arg)); }
        // 1-bit edits across the WHOLE main header (quick: every 7th bit, phase from the seed; thorough: every bit)
        let step = ctx.q(7u64, 1);
        let mut bit = o[2] * 8 + (seed + ki as u64) % step;
        while bit < o[3] * 8 {
            let off = (bit / 8) as usize;
            if mine!() { ctx.req(&format!("forge02 {} {} 1 {} {} {}", key.0, off, hx(&[pkg[off] ^ (0x80u8 >> (bit % 8))]), tbl, arg)); }
            bit += step;
        }
        // … and across the payload (the forger then rewrites PAYLOADDIGEST, i.e. the signed header)
        let step = ctx.q(13u64, 1);
        let mut bit = o[3] * 8 + (seed + ki as u64) % step;
        while bit < o[4] * 8 {
            let off = (bit / 8) as usize;
            if mine!() { ctx.req(&format!("forge02 {} {} 1 {} {} {}", key.0, off, hx(&[pkg[off] ^ (0x80u8 >> (bit % 8))]), tbl, arg)); }
            bit += step;
        }
        // random multi-byte edits
        let mut r = Rng::new(seed ^ 0xF02E ^ ((ki as u64) << 32));
        for _ in 0..ctx.q(150u64, 3000) {
            let off = lo + r.below(hi - lo);
            let k = 1 + r.below(8);
            let (del, ins): (u64, Vec<u8>) = match r.below(7) {
                0 | 1 | 2 => (k.min(hi - off), r.bytes(k.min(hi - off) as usize)),
                3 => (k.min(hi - off), vec![]),
                4 => (0, r.bytes(k as usize)),
                5 => (hi - off, vec![]),
                _ => (0, vec![0u8; k as usize]),
            };
            if mine!() { ctx.req(&format!("forge02 {} {} {} {} {} {}", key.0, off, del, hx(&ins), tbl, arg)); }
        }
        for k in [1usize, 2, 7, 64] {
            let ins = r.bytes(k);
            if mine!() { ctx.req(&format!("forge02 {} {} 0 {} {} {}", key.0, hi, hx(&ins), tbl, arg)); }
        }
    }
}
