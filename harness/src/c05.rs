//! C05: metadata accessors return exactly what the header stores.
//! `acc BYTES` → canonical dump of every accessor of `PackageMetadata` (errors collapsed to `err`:
//! the property only says "an error, never a made-up value").
use crate::common::*;
use crate::pkggen::*;
use std::os::unix::ffi::OsStrExt;

fn s(r: Result<&str, rpm::Error>) -> String {
    match r { Ok(v) => format!("ok:{}", hx(v.as_bytes())), Err(_) => "err".into() }
}
fn n<T: std::fmt::Display>(r: Result<T, rpm::Error>) -> String {
    match r { Ok(v) => format!("ok:{}", v), Err(_) => "err".into() }
}
fn deps(r: Result<Vec<rpm::Dependency>, rpm::Error>) -> String {
    match r {
        Ok(v) => format!("ok:[{}]", v.iter().map(|d| format!("{},{},{}", hx(d.name.as_bytes()), d.flags.bits(), hx(d.version.as_bytes()))).collect::<Vec<_>>().join(";")),
        Err(_) => "err".into(),
    }
}
fn script(r: Result<rpm::Scriptlet, rpm::Error>) -> String {
    match r {
        Ok(sc) => format!(
            "ok:{},{},{}",
            hx(sc.script.as_bytes()),
            sc.flags.map(|f| f.bits().to_string()).unwrap_or("~".into()),
            sc.program.map(|p| format!("[{}]", p.iter().map(|x| hx(x.as_bytes())).collect::<Vec<_>>().join("/"))).unwrap_or("~".into())
        ),
        Err(_) => "err".into(),
    }
}

pub fn dump(m: &rpm::PackageMetadata) -> String {
    let mut o: Vec<String> = Vec::new();
    o.push(format!("src={}", m.is_source_package()));
    o.push(format!("name={}", s(m.get_name())));
    o.push(format!("epoch={}", n(m.get_epoch())));
    o.push(format!("version={}", s(m.get_version())));
    o.push(format!("release={}", s(m.get_release())));
    o.push(format!("arch={}", s(m.get_arch())));
    o.push(format!("vendor={}", s(m.get_vendor())));
    o.push(format!("url={}", s(m.get_url())));
    o.push(format!("vcs={}", s(m.get_vcs())));
    o.push(format!("license={}", s(m.get_license())));
    o.push(format!("summary={}", s(m.get_summary())));
    o.push(format!("description={}", s(m.get_description())));
    o.push(format!("group={}", s(m.get_group())));
    o.push(format!("packager={}", s(m.get_packager())));
    o.push(format!("buildtime={}", n(m.get_build_time())));
    o.push(format!("buildhost={}", s(m.get_build_host())));
    o.push(format!("cookie={}", s(m.get_cookie())));
    o.push(format!("sourcerpm={}", s(m.get_source_rpm())));
    o.push(format!("prein={}", script(m.get_pre_install_script())));
    o.push(format!("postin={}", script(m.get_post_install_script())));
    o.push(format!("preun={}", script(m.get_pre_uninstall_script())));
    o.push(format!("postun={}", script(m.get_post_uninstall_script())));
    o.push(format!("pretrans={}", script(m.get_pre_trans_script())));
    o.push(format!("posttrans={}", script(m.get_post_trans_script())));
    o.push(format!("preuntrans={}", script(m.get_pre_untrans_script())));
    o.push(format!("postuntrans={}", script(m.get_post_untrans_script())));
    o.push(format!("provides={}", deps(m.get_provides())));
    o.push(format!("requires={}", deps(m.get_requires())));
    o.push(format!("conflicts={}", deps(m.get_conflicts())));
    o.push(format!("obsoletes={}", deps(m.get_obsoletes())));
    o.push(format!("recommends={}", deps(m.get_recommends())));
    o.push(format!("suggests={}", deps(m.get_suggests())));
    o.push(format!("enhances={}", deps(m.get_enhances())));
    o.push(format!("supplements={}", deps(m.get_supplements())));
    o.push(format!("size={}", n(m.get_installed_size())));
    o.push(format!("compressor={}", n(m.get_payload_compressor())));
    o.push(format!(
        "paths={}",
        match m.get_file_paths() {
            Ok(v) => format!("ok:[{}]", v.iter().map(|p| hx(p.as_os_str().as_bytes())).collect::<Vec<_>>().join(";")),
            Err(_) => "err".into(),
        }
    ));
    o.push(format!("fdalgo={}", match m.get_file_digest_algorithm() { Ok(a) => format!("ok:{}", a as u32), Err(_) => "err".into() }));
    o.push(format!(
        "files={}",
        match m.get_file_entries() {
            Ok(v) => format!(
                "ok:[{}]",
                v.iter()
                    .map(|f| format!(
                        "{},{},{},{},{},{},{},{},{},{},{}",
                        hx(f.path.as_os_str().as_bytes()),
                        f.mode.raw_mode(),
                        hx(f.ownership.user.as_bytes()),
                        hx(f.ownership.group.as_bytes()),
                        f.modified_at.0,
                        f.size,
                        f.flags.bits(),
                        f.digest.as_ref().map(|d| format!("{}:{}", d.algorithm() as u32, hx(d.as_hex().as_bytes()))).unwrap_or("~".into()),
                        f.caps.as_ref().map(|c| hx(c.as_bytes())).unwrap_or("~".into()),
                        hx(f.linkto.as_bytes()),
                        f.ima_signature.as_ref().map(|c| hx(c.as_bytes())).unwrap_or("~".into())
                    ))
                    .collect::<Vec<_>>()
                    .join(";")
            ),
            Err(_) => "err".into(),
        }
    ));
    o.push(format!(
        "changelog={}",
        match m.get_changelog_entries() {
            Ok(v) => format!("ok:[{}]", v.iter().map(|c| format!("{},{},{}", hx(c.name.as_bytes()), c.timestamp, hx(c.description.as_bytes()))).collect::<Vec<_>>().join(";")),
            Err(_) => "err".into(),
        }
    ));
    o.join(" ")
}

pub fn eval(op: &str, a: &[&str]) -> Option<String> {
    match op {
        "acc" => {
            let bytes = arg_bytes(a[0]);
            Some(match rpm::PackageMetadata::parse(&mut &bytes[..]) {
                Ok(m) => dump(&m),
                Err(_) => "parse-err".into(),
            })
        }
        // `get05 h|s T1,T2,.. BYTES`: the nine typed getters of `Header<T>` called DIRECTLY (the property's observe_at names
        // them), on the main (h) or signature (s) header, for each listed tag number that is a variant of the tag enum
        "get05" => {
            let bytes = arg_bytes(a[2]);
            let tags: Vec<u32> = a[1].split(',').filter_map(|t| t.parse().ok()).collect();
            Some(match rpm::PackageMetadata::parse(&mut &bytes[..]) {
                Ok(m) => tags.iter().map(|&t| if a[0] == "s" { getters(&m.signature, t) } else { getters(&m.header, t) }).collect::<Vec<_>>().join(" ; "),
                Err(_) => "parse-err".into(),
            })
        }
        // `lossy05 HEX`: std's String::from_utf8_lossy, the function header.rs decodes every string with
        "lossy05" => Some(hx(String::from_utf8_lossy(&arg_bytes(a[0])).as_bytes())),
        _ => None,
    }
}

fn strs(r: Result<&[String], rpm::Error>) -> String {
    match r { Ok(v) => format!("ok:[{}]", v.iter().map(|x| hx(x.as_bytes())).collect::<Vec<_>>().join(";")), Err(_) => "err".into() }
}
fn nums<T: std::fmt::Display>(r: Result<Vec<T>, rpm::Error>) -> String {
    match r { Ok(v) => format!("ok:[{}]", v.iter().map(|x| x.to_string()).collect::<Vec<_>>().join(";")), Err(_) => "err".into() }
}
/// is `tag` a variant of the tag enum `T`? (`Tag: num::FromPrimitive`; the bound brings `from_u32` into scope)
pub fn tag_of<T: rpm::Tag>(tag: u32) -> Option<T> { T::from_u32(tag) }

pub fn getters<T: rpm::Tag>(h: &rpm::Header<T>, tag: u32) -> String {
    let Some(t) = tag_of::<T>(tag) else { return format!("{}:notag", tag) };
    format!(
        "{}:present={} bin={} str={} i18n={} u16a={} u32={} u32a={} u64={} u64a={} stra={}",
        tag,
        h.entry_is_present(t),
        match h.get_entry_data_as_binary(t) { Ok(v) => format!("ok:{}", hx(v)), Err(_) => "err".into() },
        s(h.get_entry_data_as_string(t)),
        s(h.get_entry_data_as_i18n_string(t)),
        nums(h.get_entry_data_as_u16_array(t)),
        n(h.get_entry_data_as_u32(t)),
        nums(h.get_entry_data_as_u32_array(t)),
        n(h.get_entry_data_as_u64(t)),
        nums(h.get_entry_data_as_u64_array(t)),
        strs(h.get_entry_data_as_string_array(t)),
    )
}

// (tag, natural type) of everything the accessors read
const TAGS: &[(u32, u32)] = &[
    (1000, 6), (1003, 4), (1001, 6), (1002, 6), (1022, 6), (1011, 6), (1020, 6), (5034, 6), (1014, 6),
    (1004, 9), (1005, 9), (1016, 9), (1015, 6), (1006, 4), (1007, 6), (1094, 6), (1044, 6), (1106, 4),
    (1023, 6), (5020, 4), (1085, 8), (1024, 6), (5021, 4), (1086, 8), (1025, 6), (5022, 4), (1087, 8),
    (1026, 6), (5023, 4), (1088, 8), (1151, 6), (5024, 4), (1153, 8), (1152, 6), (5025, 4), (1154, 8),
    (5103, 6), (5107, 4), (5105, 8), (5104, 6), (5108, 4), (5106, 8),   // PREUNTRANS / …FLAGS / …PROG, POSTUNTRANS / …
    (1047, 8), (1112, 4), (1113, 8), (1049, 8), (1048, 4), (1050, 8), (1054, 8), (1053, 4), (1055, 8),
    (1090, 8), (1114, 4), (1115, 8), (5046, 8), (5048, 4), (5047, 8), (5049, 8), (5051, 4), (5050, 8),
    (5055, 8), (5057, 4), (5056, 8), (5052, 8), (5054, 4), (5053, 8),
    (5009, 5), (1009, 4), (1125, 6), (1117, 8), (1116, 4), (1118, 8), (5011, 4),
    (1030, 3), (1039, 8), (1040, 8), (1035, 8), (1034, 4), (5008, 5), (1028, 4), (1037, 4), (5010, 8), (1036, 8),
    (1080, 4), (1081, 8), (1082, 8),   // CHANGELOGTIME is the INT32 one
];

// tag groups that an accessor reads together
const FILE_GROUP: &[u32] = &[1030, 1039, 1040, 1035, 1034, 1028, 1037, 1036, 1117, 1116, 1118];
const TRIPLES: &[[u32; 3]] = &[
    [1047, 1112, 1113], [1049, 1048, 1050], [1054, 1053, 1055], [1090, 1114, 1115], [5046, 5048, 5047],
    [5049, 5051, 5050], [5055, 5057, 5056], [5052, 5054, 5053], [1080, 1081, 1082],
    [1023, 5020, 1085], [1024, 5021, 1086], [1151, 5024, 1153], [5103, 5107, 5105], [5104, 5108, 5106],
];

fn natural_type(tag: u32) -> u32 {
    TAGS.iter().find(|t| t.0 == tag).map(|t| t.1).unwrap_or(6)
}

fn data_for(rng: &mut Rng, tag: u32, ty: u32, count: usize) -> TData {
    match ty {
        0 => TData::Null,
        1 | 2 | 7 => TData::Bytes(rng.bytes(count)),
        3 => TData::U16((0..count).map(|_| *rng.pick(&[0o100644u16, 0o040755, 0o120777, 0o010644, 0, 0xffff])).collect()),
        4 => TData::U32((0..count).map(|_| match tag {
            // dir indexes: mostly in range (4 directories in a consistent group); one in twelve from the edges n - 1, n and
            // the values a narrowing cast / a modulus / a sign would fold back into range (2^16 + i, 2^31 + i, 2^32 - 4 + i)
            1116 => if rng.chance(11, 12) { rng.below(4) as u32 } else {
                *rng.pick(&[3u32, 4, 5, 0x1_0000, 0x1_0001, 0x1_0003, 0x1_0004, 0x8000_0000, 0x8000_0001, 0x7fff_ffff, 0xffff_fffc, 0xffff_fffd, 0xffff_ffff, 0x0100_0000, 0x0001_0100])
            },
            5011 => *rng.pick(&[8u32, 8, 8, 8, 8, 8, 8, 1, 9, 10, 11, 12, 14, 0, 99]),
            _ => rng.next() as u32 >> rng.below(32),
        }).collect()),
        5 => TData::U64((0..count).map(|_| rng.next() >> rng.below(64)).collect()),
        6 => TData::Str(match tag {
            1125 => rng.pick(&["gzip", "zstd", "xz", "bzip2", "none", "lzma", "", "XZ", "xz ", "Gzip", "bzip", "non\u{e9}", "None"]).as_bytes().to_vec(),
            _ => rand_cstr(rng),
        }),
        _ => TData::Strs((0..count).map(|_| match tag {
            1118 => rng.pick(&["/", "/usr/", "/usr/bin", "", "rel/", "/é/"]).as_bytes().to_vec(),
            1117 => rng.pick(&["a", "b.txt", "/abs", "", "x/y", "..", "c"]).as_bytes().to_vec(),
            1035 => {
                let l = *rng.pick(&[0usize, 0, 64, 64, 64, 64, 64, 64, 64, 64, 64, 64, 32, 56, 60, 40, 96, 128, 10]);
                (0..l).map(|_| b"0123456789abcdef"[rng.below(16) as usize]).collect()
            }
            _ => rand_cstr(rng),
        }).collect()),
    }
}

pub fn gen_typed(rng: &mut Rng) -> Vec<u8> {
    let mut hdr = GHeader::new();
    let nfiles = 1 + rng.below(4) as usize;
    // decide per group: 0 = each tag independently, 1 = consistent (all present, natural types, common length)
    let files_mode = rng.below(3);
    let mut consistent: Vec<(u32, usize)> = Vec::new();
    if files_mode >= 1 {
        for &t in FILE_GROUP {
            let n = if t == 1118 { 4 } else { nfiles };
            consistent.push((t, n));
        }
        if rng.chance(1, 2) { consistent.push((5008, nfiles)); } // 64-bit sizes take precedence
        if rng.chance(1, 3) { consistent.push((5010, nfiles)); } // caps
        if rng.chance(4, 5) { consistent.push((5011, 1)); }
    }
    for tr in TRIPLES {
        if rng.chance(1, 3) {
            let n = rng.below(4) as usize;
            for (k, &t) in tr.iter().enumerate() {
                // scriptlet triples: script is a single string, flags a single u32
                let cnt = if natural_type(t) == 6 { 1 } else if k == 1 && natural_type(tr[0]) == 6 { 1 } else { n };
                consistent.push((t, cnt));
            }
        }
    }
    // one or two perturbations of the consistent part
    let mut drop_tag = 0u32;
    let mut retype_tag = 0u32;
    let mut relen_tag = 0u32;
    if !consistent.is_empty() && rng.chance(1, 2) {
        let t = consistent[rng.below(consistent.len() as u64) as usize].0;
        match rng.below(3) { 0 => drop_tag = t, 1 => retype_tag = t, _ => relen_tag = t }
    }
    // in a consistent file group the digests are usually those of ONE algorithm (real lengths: md5 32, sha1 40,
    // sha224 56, sha256 64, sha384 96, sha512 128) and FILEDIGESTALGO names it
    let coherent: Option<(u32, usize)> = if files_mode >= 1 && rng.chance(3, 4) {
        Some(*rng.pick(&[(8u32, 64usize), (8, 64), (8, 64), (1, 32), (11, 56), (9, 96), (10, 128), (2, 40), (11, 60)]))
    } else { None };
    for &(tag, ty) in TAGS {
        if let Some((algo, len)) = coherent {
            if tag == 1035 || tag == 5011 {
                let has = consistent.iter().any(|c| c.0 == tag);
                if tag == 5011 && !has { consistent.push((5011, 1)); }
                let d = if tag == 5011 { TData::U32(vec![algo]) } else {
                    TData::Strs((0..nfiles).map(|_| if rng.chance(1, 6) { Vec::new() } else { (0..len).map(|_| b"0123456789abcdef"[rng.below(16) as usize]).collect() }).collect())
                };
                if tag != drop_tag && tag != retype_tag && tag != relen_tag {
                    hdr.push(tag, ty, &d);
                    continue;
                }
            }
        }
        let cons = consistent.iter().find(|c| c.0 == tag).cloned();
        if let Some((_, n)) = cons {
            if tag == drop_tag { continue; }
            let ty2 = if tag == retype_tag { rng.below(10) as u32 } else { ty };
            let n2 = if tag == relen_tag { rng.below(6) as usize } else { n };
            let d = data_for(rng, tag, ty2, n2);
            hdr.push(tag, ty2, &d);
        } else {
            if rng.chance(2, 5) { continue; }
            let ty2 = if rng.chance(1, 8) { rng.below(10) as u32 } else { ty };
            let count = rng.below(5) as usize;
            let d = data_for(rng, tag, ty2, count);
            hdr.push(tag, ty2, &d);
        }
        if rng.chance(1, 30) {
            // duplicate tag with other data: the first one must win
            let d2 = rand_data(rng, ty);
            hdr.push(tag, ty, &d2);
        }
    }
    if rng.chance(1, 4) {
        let len = hdr.entries.len();
        for i in 0..len {
            let j = rng.below(len as u64) as usize;
            hdr.entries.swap(i, j);
        }
    }
    let mut sig = GHeader::new();
    if rng.chance(1, 3) {
        let ty = if rng.chance(1, 5) { 6 } else { 8 };
        let d = data_for(rng, 274, ty, nfiles);
        sig.push(274, ty, &d); // RPMSIGTAG_FILESIGNATURES
    }
    // non-canonical index entries for the tags the accessors read (one header in six): the VALUES must still be what the
    // store holds at the offset for the count the entry states
    if rng.chance(1, 6) { noncanon(rng, &mut hdr); }
    let lead = gen_lead(rng, false);
    assemble(&lead, &sig, 0, &hdr, &[])
}

/// one entry made non-canonical: offset shared with another entry, count one off (array shorter / reaching into the
/// next entry's bytes), integers at an unaligned offset, an array overlapping its own tail, STRING with a count != 1
pub fn noncanon(rng: &mut Rng, h: &mut GHeader) {
    if h.entries.is_empty() { return; }
    let i = rng.below(h.entries.len() as u64) as usize;
    let esz = |ty: u32| -> i32 { match ty { 3 => 2, 4 => 4, 5 => 8, _ => 1 } };
    match rng.below(6) {
        0 => {
            // same offset as another entry (preferably of the same type)
            let ty = h.entries[i].ty;
            let same: Vec<usize> = (0..h.entries.len()).filter(|&j| j != i && h.entries[j].ty == ty).collect();
            let j = if same.is_empty() { rng.below(h.entries.len() as u64) as usize } else { *rng.pick(&same) };
            h.entries[i].off = h.entries[j].off;
        }
        1 => h.entries[i].cnt = h.entries[i].cnt.wrapping_add(1),
        2 => h.entries[i].cnt = h.entries[i].cnt.saturating_sub(1),
        3 => h.entries[i].off += 1 + rng.below(3) as i32,                      // unaligned integers / string tail
        4 => h.entries[i].off += esz(h.entries[i].ty),                         // overlaps its own second item
        _ => {
            if let Some(e) = h.entries.iter_mut().find(|e| e.ty == 6) { e.cnt = *rng.pick(&[0u32, 2, 3]); }
        }
    }
}

pub fn gen(ctx: &mut Ctx) {
    let (si, sn) = ctx.shard;
    if si == 0 {
        for p in asset_paths() {
            ctx.req(&format!("acc @{}", p.display()));
        }
        for f in ["rpm-empty-0-0.src.rpm", "rpm-empty-0-0.x86_64.rpm"] {
            ctx.req(&format!("acc @/repo/test_assets/fixture_packages/{}", f));
        }
    }
    let n = ctx.q(8_000u64, 300_000) / sn;
    for i in 0..n {
        let bytes = if i % 8 == 7 { gen_package_wf(&mut ctx.rng) } else { gen_typed(&mut ctx.rng) };
        ctx.req(&format!("acc {}", hx(&bytes)));
    }
    // the typed getters called directly, on the tags the accessors read and on arbitrary tags of both enums
    let n = ctx.q(1_600u64, 60_000) / sn;
    for i in 0..n {
        let bytes = if i % 4 == 3 { gen_package_wf(&mut ctx.rng) } else { gen_typed(&mut ctx.rng) };
        let sig = i % 5 == 4;
        let mut tags: Vec<u32> = Vec::new();
        while tags.len() < 6 {
            let t = if sig {
                *ctx.rng.pick(&[62u32, 63, 100, 257, 259, 261, 262, 264, 266, 267, 268, 269, 270, 271, 273, 274, 275, 276, 277, 278, 1000, 1002, 1004, 1005, 1007, 1008])
            } else if ctx.rng.chance(5, 6) { ctx.rng.pick(TAGS).0 } else { 1000 + ctx.rng.below(60) as u32 };
            let valid = if sig { tag_of::<rpm::IndexSignatureTag>(t).is_some() } else { tag_of::<rpm::IndexTag>(t).is_some() };
            if valid && !tags.contains(&t) { tags.push(t); }
        }
        let ts = tags.iter().map(|t| t.to_string()).collect::<Vec<_>>().join(",");
        ctx.req(&format!("get05 {} {} {}", if sig { "s" } else { "h" }, ts, hx(&bytes)));
    }
    gen_lossy(ctx);
}

/// `String::from_utf8_lossy` (AUDIT2 b1): every (lead, second byte) pair, the restricted second-byte ranges after
/// E0 / ED / F0 / F4 with every third / fourth byte class, every truncation at the end of the input, random soups.
/// Sequences are separated by an ASCII letter (never part of a multi-byte sequence, so each one is decoded on its own).
fn gen_lossy(ctx: &mut Ctx) {
    let (si, sn) = ctx.shard;
    const EDGE: &[u8] = &[0x00, 0x41, 0x7f, 0x80, 0x8f, 0x90, 0x9f, 0xa0, 0xbf, 0xc0, 0xc1, 0xc2, 0xdf, 0xe0, 0xed, 0xef, 0xf0, 0xf4, 0xf5, 0xff];
    const LEADS: &[u8] = &[0xc2, 0xdf, 0xe0, 0xe1, 0xec, 0xed, 0xee, 0xef, 0xf0, 0xf1, 0xf3, 0xf4];
    if si == 0 {
        for b0 in 0x80u32..=0xff {
            let mut v = Vec::new();
            for b1 in 0u32..=0xff { v.extend_from_slice(&[b0 as u8, b1 as u8, b'z']); }
            ctx.req(&format!("lossy05 {}", hx(&v)));
        }
        for &b0 in LEADS {
            let mut v3 = Vec::new();
            let mut v4 = Vec::new();
            for &b1 in EDGE { for &b2 in EDGE {
                v3.extend_from_slice(&[b0, b1, b2, b'z']);
                for &b3 in &[0x7fu8, 0x80, 0xbf, 0xc0, 0xf0] { v4.extend_from_slice(&[b0, b1, b2, b3, b'z']); }
            } }
            ctx.req(&format!("lossy05 {}", hx(&v3)));
            ctx.req(&format!("lossy05 {}", hx(&v4)));
            // truncations: the sequence is the END of the input
            ctx.req(&format!("lossy05 {}", hx(&[b'a', b0])));
            for &b1 in EDGE {
                ctx.req(&format!("lossy05 {}", hx(&[b0, b1])));
                for &b2 in &[0x80u8, 0xbf, 0x7f, 0xc2] { ctx.req(&format!("lossy05 {}", hx(&[b0, b1, b2]))); }
            }
        }
        ctx.req("lossy05 -");
    }
    let n = ctx.q(600u64, 20_000) / sn;
    for _ in 0..n {
        let len = 1 + ctx.rng.below(12) as usize;
        let v: Vec<u8> = (0..len).map(|_| if ctx.rng.chance(1, 6) { ctx.rng.next() as u8 } else { *ctx.rng.pick(EDGE) }).collect();
        ctx.req(&format!("lossy05 {}", hx(&v)));
    }
}

#[cfg(test)]
mod tag_table_matches_the_crate {
    // the generator's numeric tag table against the crate's own enum (cargo test in the harness crate)
    #[test]
    fn scriptlet_and_changelog_tags() {
        use rpm::IndexTag as T;
        assert_eq!(T::RPMTAG_CHANGELOGTIME as u32, 1080);
        assert_eq!(T::RPMTAG_CHANGELOGNAME as u32, 1081);
        assert_eq!(T::RPMTAG_CHANGELOGTEXT as u32, 1082);
        assert_eq!((T::RPMTAG_PREUNTRANS as u32, T::RPMTAG_PREUNTRANSFLAGS as u32, T::RPMTAG_PREUNTRANSPROG as u32), (5103, 5107, 5105));
        assert_eq!((T::RPMTAG_POSTUNTRANS as u32, T::RPMTAG_POSTUNTRANSFLAGS as u32, T::RPMTAG_POSTUNTRANSPROG as u32), (5104, 5108, 5106));
    }
}
