//! C13: version comparison through the public API (`Evr`, `Nevra`, `rpm_evr_compare`).
use crate::common::*;
use rpm::{Evr, Nevra};

fn st(h: &str) -> String {
    String::from_utf8(unhx(h)).expect("utf8")
}

/// `cmp`, `==`, `partial_cmp`, the four operators and `max` / `min` of one pair, all through the type's own impls.
/// `max` / `min` are reported as the argument that came back: `l`, `r`, `b` (the two are field-wise alike), `?` (neither).
fn ops_obs<T: Ord + Clone, V: PartialEq>(x: &T, y: &T, eq: bool, values: impl Fn(&T) -> V) -> String {
    let which = |m: T| {
        let (vm, vx, vy) = (values(&m), values(x), values(y));
        if vx == vy { if vm == vx { "b" } else { "?" } } else if vm == vx { "l" } else if vm == vy { "r" } else { "?" }
    };
    let pc = match x.partial_cmp(y) {
        Some(o) => ord_str(o),
        None => "none",
    };
    format!(
        "{},{},{},{},{},{},{},{},{}",
        ord_str(x.cmp(y)),
        eq,
        pc,
        (x < y) as u8,
        (x <= y) as u8,
        (x > y) as u8,
        (x >= y) as u8,
        which(x.clone().max(y.clone())),
        which(x.clone().min(y.clone()))
    )
}

/// the oracle tables vendored under tools/gen/data (rpm's tests/rpmvercmp.at, libsolv's answers): the real code is run on
/// every pair of them; the expected answers are proved of the spec in Props/C13.lean (`vectors_ok`, `libsolv_*_ok`)
const AT_VECTORS: &str = include_str!("../../tools/gen/data/rpmvercmp.at.txt");
const LIBSOLV_VERCMP: &str = include_str!("../../tools/gen/data/vercmp_libsolv.txt");
const LIBSOLV_EVRCMP: &str = include_str!("../../tools/gen/data/evrcmp_libsolv.txt");

fn oracle_requests() -> Vec<String> {
    let mut out = Vec::new();
    for l in AT_VECTORS.lines() {
        if let Some(rest) = l.trim().strip_prefix("RPMVERCMP(") {
            let parts: Vec<&str> = rest.trim_end_matches(')').split(", ").collect();
            if parts.len() == 3 {
                out.push(format!("vercmp {} {}", hx(parts[0].as_bytes()), hx(parts[1].as_bytes())));
            }
        }
    }
    for (op, text) in [("vercmp", LIBSOLV_VERCMP), ("evrstrcmp", LIBSOLV_EVRCMP)] {
        for l in text.lines() {
            if l.starts_with('#') {
                continue;
            }
            let t: Vec<&str> = l.split_whitespace().collect();
            if t.len() >= 3 {
                out.push(format!("{} {} {}", op, t[0], t[1]));
            }
        }
    }
    out
}

pub fn eval(op: &str, a: &[&str]) -> Option<String> {
    match op {
        "vercmp" => {
            // epoch "" vs "" and release "" vs "" compare Equal, so this is compare_version_string(a, b)
            let (x, y) = (st(a[0]), st(a[1]));
            Some(ord_str(Evr::new("", x.as_str(), "").cmp(&Evr::new("", y.as_str(), ""))).to_string())
        }
        "evrcmp" => {
            let f: Vec<String> = a.iter().map(|h| st(h)).collect();
            let x = Evr::new(f[0].as_str(), f[1].as_str(), f[2].as_str());
            let y = Evr::new(f[3].as_str(), f[4].as_str(), f[5].as_str());
            Some(ops_obs(&x, &y, x == y, |e: &Evr| (e.epoch().to_string(), e.version().to_string(), e.release().to_string())))
        }
        "nevracmp" => {
            let f: Vec<String> = a.iter().map(|h| st(h)).collect();
            let x = Nevra::new(f[0].as_str(), f[1].as_str(), f[2].as_str(), f[3].as_str(), f[4].as_str());
            let y = Nevra::new(f[5].as_str(), f[6].as_str(), f[7].as_str(), f[8].as_str(), f[9].as_str());
            Some(ops_obs(&x, &y, x == y, |n: &Nevra| {
                let v = n.values();
                (v.0.to_string(), v.1.to_string(), v.2.to_string(), v.3.to_string(), v.4.to_string())
            }))
        }
        "evrstrcmp" => {
            let (x, y) = (st(a[0]), st(a[1]));
            Some(ord_str(rpm::rpm_evr_compare(&x, &y)).to_string())
        }
        _ => None,
    }
}

fn all_strings(alpha: &[&str], maxlen: usize) -> Vec<String> {
    let mut out = vec![String::new()];
    let mut layer = vec![String::new()];
    for _ in 0..maxlen {
        let mut next = Vec::new();
        for s in &layer {
            for c in alpha {
                next.push(format!("{}{}", s, c));
            }
        }
        out.extend(next.iter().cloned());
        layer = next;
    }
    out
}

fn rand_version(rng: &mut Rng) -> String {
    const PARTS: &[&str] = &[
        "0", "00", "1", "01", "9", "10", "2", "a", "B", "rc", "alpha", "z", ".", "..", "-", "_", "~", "^", "~~", "é",
        "+", "git", "20240101", "007",
        // characters a Unicode-aware classification would take for digits or letters (`char::is_numeric`, `is_alphabetic`),
        // other non-ASCII ones (2-, 3- and 4-byte), a combining mark, and the ASCII neighbours of '0'..'9', 'A'..'Z', 'a'..'z'
        "٣", "²", "１", "Ａ", "€", "𝄞", "\u{301}", "/", ":", "@", "[", "`", "{",
    ];
    let n = rng.below(8) as usize;
    (0..n).map(|_| *rng.pick(PARTS)).collect()
}

fn mutate(rng: &mut Rng, s: &str) -> String {
    // share a prefix, then diverge
    let chars: Vec<char> = s.chars().collect();
    let cut = rng.below(chars.len() as u64 + 1) as usize;
    let mut t: String = chars[..cut].iter().collect();
    t.push_str(&rand_version(rng));
    t
}

pub fn gen(ctx: &mut Ctx) {
    // the alphabet the property's quantifier names: digits incl. 0, letters of both cases, '.', '-', '_', '~', '^', a non-ASCII
    // character — every ordered pair of strings up to length 3
    let alpha: Vec<&str> = vec!["0", "1", "9", "a", "B", ".", "-", "_", "~", "^", "é"];
    let strs = all_strings(&alpha, 3);
    let (si, sn) = ctx.shard;
    for (i, a) in strs.iter().enumerate() {
        if (i as u64) % sn != si {
            continue;
        }
        for b in &strs {
            ctx.req(&format!("vercmp {} {}", hx(a.as_bytes()), hx(b.as_bytes())));
        }
    }
    // the wide alphabet: the same letters plus the characters on which a wrong character class would show — non-ASCII
    // digits and letters (Arabic-Indic three, superscript two, full-width one and A), other 3- / 4-byte characters, a combining
    // mark, and the ASCII neighbours of the digit and letter ranges — every ordered pair of strings up to length 2
    let wide: Vec<&str> = vec![
        "0", "1", "9", "a", "B", ".", "-", "_", "~", "^", "é", "٣", "²", "１", "Ａ", "€", "𝄞", "\u{301}", "/", ":", "@", "[", "`", "{",
    ];
    let wstrs = all_strings(&wide, 2);
    for (i, a) in wstrs.iter().enumerate() {
        if (i as u64) % sn != si {
            continue;
        }
        for b in &wstrs {
            ctx.req(&format!("vercmp {} {}", hx(a.as_bytes()), hx(b.as_bytes())));
        }
    }
    // the vendored oracle pairs (rpm's own test cases, libsolv's answers) through the real code
    for (i, r) in oracle_requests().iter().enumerate() {
        if (i as u64) % sn == si {
            ctx.req(r);
        }
    }
    // long random strings biased to shared prefixes, leading zeros, separator runs
    let n = ctx.q(50_000, 1_000_000) / sn;
    for _ in 0..n {
        let a = rand_version(&mut ctx.rng);
        let b = if ctx.rng.chance(2, 3) { mutate(&mut ctx.rng, &a) } else { rand_version(&mut ctx.rng) };
        ctx.req(&format!("vercmp {} {}", hx(a.as_bytes()), hx(b.as_bytes())));
    }
    // numeric segments around machine-integer boundaries (2^31, 2^32, 2^63, 2^64, beyond), with leading
    // zeros on either side: an implementation that parses segments into integers breaks exactly here
    const BIG: &[&str] = &[
        "2147483647", "2147483648", "4294967295", "4294967296", "9223372036854775807", "9223372036854775808",
        "18446744073709551615", "18446744073709551616", "18446744073709551617", "99999999999999999999",
        "100000000000000000000", "340282366920938463463374607431768211456", "1", "0",
    ];
    let n = ctx.q(20_000, 300_000) / sn;
    for _ in 0..n {
        let mk = |rng: &mut Rng| {
            let z = *rng.pick(&["", "", "0", "00", "0000000000000000000000"]);
            let mut d = rng.pick(BIG).to_string();
            if rng.chance(1, 4) {
                // perturb one digit
                let i = rng.below(d.len() as u64) as usize;
                let c = (b'0' + rng.below(10) as u8) as char;
                d.replace_range(i..i + 1, &c.to_string());
            }
            let pre = *rng.pick(&["", "1.", "a", "1.0~", "^"]);
            let post = *rng.pick(&["", ".1", "a", "~", "-1"]);
            format!("{}{}{}{}", pre, z, d, post)
        };
        let a = mk(&mut ctx.rng);
        let b = if ctx.rng.chance(1, 2) { mk(&mut ctx.rng) } else {
            // same digits, different zero padding
            let z = *ctx.rng.pick(&["0", "00", "000000000000000000000"]);
            match a.find(|c: char| c.is_ascii_digit()) { Some(i) => format!("{}{}{}", &a[..i], z, &a[i..]), None => a.clone() }
        };
        ctx.req(&format!("vercmp {} {}", hx(a.as_bytes()), hx(b.as_bytes())));
    }
    // EVR / NEVRA products and equality
    let pool = ["", "0", "1", "01", "2", "1.0", "1.0~rc1", "1.0^git", "a", "é", "00", "1a", "10", "4294967296", "00000000000000000001", "18446744073709551616", "²"];
    let n = ctx.q(20_000, 300_000) / sn;
    for _ in 0..n {
        let f: Vec<String> = (0..10).map(|_| hx(ctx.rng.pick(&pool).as_bytes())).collect();
        ctx.req(&format!("evrcmp {} {} {} {} {} {}", f[0], f[1], f[2], f[3], f[4], f[5]));
        ctx.req(&format!(
            "nevracmp {} {} {} {} {} {} {} {} {} {}",
            f[6], f[0], f[1], f[2], f[7], f[8], f[3], f[4], f[5], f[9]
        ));
    }
    // NEVRA pairs whose TEXTS coincide although their fields differ: the same characters cut at another '-', ':' or '.'
    // (seed C13-8: equality through the formatted text makes such pairs `==` while `cmp` tells them apart)
    let atoms = ["foo", "1", "0", "2", "fc40", "x86_64", "1.0", "a", "rc1"];
    let n = ctx.q(6_000, 60_000) / sn;
    for _ in 0..n {
        let mut pick = |rng: &mut Rng| rng.pick(&atoms).to_string();
        let (nm, v, r, a, x) = (pick(&mut ctx.rng), pick(&mut ctx.rng), pick(&mut ctx.rng), pick(&mut ctx.rng), pick(&mut ctx.rng));
        let e = ctx.rng.pick(&["", "0", "1"]).to_string();
        let e0 = if e.is_empty() { "0".to_string() } else { e.clone() };
        // (left fields, right fields): the formatted texts name-epoch:version-release.arch are identical
        let (l, rr): ([String; 5], [String; 5]) = match ctx.rng.below(5) {
            0 => ([nm.clone(), e.clone(), v.clone(), format!("{}.{}", r, x), a.clone()], [nm.clone(), e0.clone(), v.clone(), r.clone(), format!("{}.{}", x, a)]),
            1 => ([nm.clone(), e.clone(), format!("{}-{}", v, x), r.clone(), a.clone()], [nm.clone(), e0.clone(), v.clone(), format!("{}-{}", x, r), a.clone()]),
            2 => ([format!("{}-{}:{}", nm, e0, x), "0".into(), v.clone(), r.clone(), a.clone()], [nm.clone(), e0.clone(), format!("{}-0:{}", x, v), r.clone(), a.clone()]),
            3 => ([nm.clone(), e.clone(), v.clone(), r.clone(), a.clone()], [nm.clone(), e0.clone(), v.clone(), r.clone(), a.clone()]),
            _ => ([format!("{}-{}", nm, x), e.clone(), v.clone(), r.clone(), a.clone()], [nm.clone(), e.clone(), format!("{}-{}", x, v), r.clone(), a.clone()]),
        };
        let f: Vec<String> = l.iter().chain(rr.iter()).map(|t| hx(t.as_bytes())).collect();
        ctx.req(&format!("nevracmp {}", f.join(" ")));
    }
    // rpm_evr_compare on whole EVR strings
    let n = ctx.q(10_000, 100_000) / sn;
    for _ in 0..n {
        let mk = |rng: &mut Rng| {
            let e = *rng.pick(&["", "0:", "1:", "01:", ":"]);
            let v = rand_version(rng);
            let r = *rng.pick(&["", "-1", "-1.fc38", "-0", "-~"]);
            format!("{}{}{}", e, v, r)
        };
        let s = mk(&mut ctx.rng);
        let t = mk(&mut ctx.rng);
        ctx.req(&format!("evrstrcmp {} {}", hx(s.as_bytes()), hx(t.as_bytes())));
    }
}
