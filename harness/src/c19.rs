//! C19: file-capability text through the public API:
//! `FileCaps::from_str`, `FileCaps::new`, `Display`, `validate_caps_text`, `FileOptions::new(..).caps(..)`,
//! and (op `capspkg`) the stored value carried through `PackageBuilder::build` and read back.
use crate::common::*;
use rpm::{FileCaps, FileOptions};
use std::str::FromStr;

fn st(h: &str) -> String {
    String::from_utf8(unhx(h)).expect("utf8")
}

fn shown(r: Result<FileCaps, rpm::Error>) -> String {
    match r {
        Ok(c) => format!("ok {}", hx(c.to_string().as_bytes())),
        Err(_) => "err".to_string(),
    }
}

pub fn eval(op: &str, a: &[&str]) -> Option<String> {
    match op {
        "caps" => {
            let text = st(a[0]);
            let o1 = shown(FileCaps::from_str(&text));
            let o2 = shown(FileCaps::new(text.clone()));
            let o3 = if rpm::validate_caps_text(&text).is_ok() { "ok" } else { "err" };
            let o4 = if FileOptions::new("/usr/bin/c19").caps(text.as_str()).is_ok() { "ok" } else { "err" };
            let accepted = o1.starts_with("ok");
            if o1 == o2 && accepted == (o3 == "ok") && accepted == (o4 == "ok") {
                Some(o1)
            } else {
                Some(format!("split:from_str={};new={};validate={};caps={}", o1, o2, o3, o4).replace(' ', "_"))
            }
        }
        "capspkg" => {
            let text = st(a[0]);
            let opts = match FileOptions::new("/usr/bin/c19").caps(text.as_str()) {
                Ok(o) => o,
                Err(_) => return Some("err".to_string()),
            };
            // any readable regular file will do as content; the harness' own manifest always exists
            let src = concat!(env!("CARGO_MANIFEST_DIR"), "/Cargo.toml");
            let pkg = rpm::PackageBuilder::new("c19", "1.0.0", "MIT", "noarch", "caps carrier")
                .compression(rpm::CompressionType::None)
                .with_file(src, opts)
                .and_then(|b| b.build());
            let pkg = match pkg {
                Ok(p) => p,
                Err(_) => return Some("build-failed".to_string()),
            };
            let entries = match pkg.metadata.get_file_entries() {
                Ok(e) => e,
                Err(_) => return Some("entries-failed".to_string()),
            };
            match entries.first().and_then(|e| e.caps.as_ref()) {
                Some(c) => Some(format!("ok {}", hx(c.to_string().as_bytes()))),
                None => Some("caps-missing".to_string()),
            }
        }
        _ => None,
    }
}

/// the token alphabet named by the property's quantifier
const TOKENS: [&str; 13] = ["cap_chown", "cap_kill", "all", "cap_bogus", ",", "=", "+", "-", "e", "i", "p", "x", " "];
/// reduced alphabet for the longest layer of the thorough tier
const TOKENS7: [&str; 9] = ["cap_chown", "all", "cap_bogus", ",", "=", "+", "e", "x", " "];

/// the Linux capability names (linux/capability.h), written independently of the crate's table
const NAMES: [&str; 41] = [
    "cap_chown", "cap_dac_override", "cap_dac_read_search", "cap_fowner", "cap_fsetid", "cap_kill", "cap_setgid",
    "cap_setuid", "cap_setpcap", "cap_linux_immutable", "cap_net_bind_service", "cap_net_broadcast", "cap_net_admin",
    "cap_net_raw", "cap_ipc_lock", "cap_ipc_owner", "cap_sys_module", "cap_sys_rawio", "cap_sys_chroot", "cap_sys_ptrace",
    "cap_sys_pacct", "cap_sys_admin", "cap_sys_boot", "cap_sys_nice", "cap_sys_resource", "cap_sys_time",
    "cap_sys_tty_config", "cap_mknod", "cap_lease", "cap_audit_write", "cap_audit_control", "cap_setfcap",
    "cap_mac_override", "cap_mac_admin", "cap_syslog", "cap_wake_alarm", "cap_block_suspend", "cap_audit_read",
    "cap_perfmon", "cap_bpf", "cap_checkpoint_restore",
];

/// every string of exactly `len` tokens over `alpha`, sharded by a running counter
fn layer(ctx: &mut Ctx, alpha: &[&str], len: usize, counter: &mut u64) {
    let (si, sn) = ctx.shard;
    let k = alpha.len();
    let total = (k as u64).pow(len as u32);
    let mut buf = String::new();
    for idx in 0..total {
        let mine = *counter % sn == si;
        *counter += 1;
        if !mine {
            continue;
        }
        buf.clear();
        let mut x = idx;
        for _ in 0..len {
            buf.push_str(alpha[(x % k as u64) as usize]);
            x /= k as u64;
        }
        ctx.req(&format!("caps {}", hx(buf.as_bytes())));
    }
}

fn recase(rng: &mut Rng, s: &str) -> String {
    match rng.below(8) {
        0 | 1 | 2 | 3 => s.to_string(),
        4 => s.to_uppercase(),
        5 => {
            let mut c = s.chars();
            match c.next() {
                Some(f) => f.to_uppercase().collect::<String>() + c.as_str(),
                None => String::new(),
            }
        }
        _ => s.chars().map(|c| if rng.chance(1, 2) { c.to_ascii_uppercase() } else { c }).collect(),
    }
}

fn rand_ws(rng: &mut Rng) -> String {
    let n = if rng.chance(1, 5) { 2 } else { 1 };
    (0..n)
        .map(|_| match rng.below(40) {
            0..=24 => ' ',
            25..=30 => '\t',
            31..=35 => '\n',
            36 | 37 => '\r',
            38 => '\x0c',
            _ => '\x0b',
        })
        .collect()
}

fn rand_clause(rng: &mut Rng) -> String {
    let mut out = String::new();
    match rng.below(12) {
        0 => {} // no name list
        1 | 2 => out.push_str(&recase(rng, "all")),
        _ => {
            let k = 1 + rng.below(3);
            for j in 0..k {
                if j > 0 {
                    out.push(',');
                }
                let name = match rng.below(40) {
                    0 => "all".to_string(),
                    1 => "cap_bogus".to_string(),
                    2 => String::new(),
                    3 => "chown".to_string(),
                    _ => rng.pick(&NAMES).to_string(),
                };
                out.push_str(&recase(rng, &name));
            }
        }
    }
    let g = 1 + rng.below(3);
    for j in 0..g {
        // a clause without a name list is only legal with '='
        let op = if j == 0 && out.is_empty() && rng.chance(9, 10) { '=' } else { *rng.pick(&['=', '+', '-']) };
        out.push(op);
        let nf = match rng.below(16) {
            0 => 0,
            1..=7 => 1,
            8..=12 => 2,
            _ => 3,
        };
        for _ in 0..nf {
            out.push(match rng.below(60) {
                0 => 'x',
                1 => 'E',
                _ => *rng.pick(&['e', 'i', 'p']),
            });
        }
    }
    out
}

const NOISE: [&str; 24] = [
    "=", "+", "-", ",", " ", "\t", "\n", "e", "i", "p", "x", "E", "_", "all", "cap_", "cap_kill", "\0", "\x1f", "\x7f", "é",
    "\u{a0}", "\u{131}", "\u{17f}", "\u{85}",
];

fn rand_text(rng: &mut Rng) -> String {
    if rng.chance(1, 6) {
        // token soup, longer than the exhaustive layers
        let n = 6 + rng.below(14);
        return (0..n)
            .map(|_| {
                let t = *rng.pick(&TOKENS);
                if rng.chance(1, 6) { recase(rng, t) } else { t.to_string() }
            })
            .collect();
    }
    let n = 1 + rng.below(5);
    let mut s = String::new();
    if rng.chance(1, 6) {
        s.push_str(&rand_ws(rng));
    }
    for j in 0..n {
        if j > 0 {
            s.push_str(&rand_ws(rng));
        }
        s.push_str(&rand_clause(rng));
    }
    if rng.chance(1, 6) {
        s.push_str(&rand_ws(rng));
    }
    if rng.chance(1, 3) {
        let mut cs: Vec<char> = s.chars().collect();
        for _ in 0..1 + rng.below(2) {
            let pos = rng.below(cs.len() as u64 + 1) as usize;
            match rng.below(4) {
                0 if pos < cs.len() => {
                    cs.remove(pos);
                }
                1 if pos < cs.len() && pos > 0 => cs.swap(pos - 1, pos),
                2 if pos < cs.len() => {
                    let c = cs[pos];
                    cs.insert(pos, c);
                }
                _ => {
                    let ins: Vec<char> = rng.pick(&NOISE).chars().collect();
                    for (o, c) in ins.into_iter().enumerate() {
                        cs.insert(pos + o, c);
                    }
                }
            }
        }
        s = cs.into_iter().collect();
    }
    s
}

/// the strings of the crate's own unit tests and of the spec's comments
const FIXED: [&str; 40] = [
    "", " ", "cap_chown", "+eip", "-eip", "cap_chown+-p", "cap_chown=-p", "cap_chown+y", "cap_noexist+p", "cap_chown=p",
    "cap_chown+p", "cap_chown+ie", "=e cap_chown-e", "=e", "all=e", "=e +p", "=e -p", "cap_chown=e +p", "=", "cap_chown+",
    "cap_kill=e-", "all,cap_chown=e", "cap_kill,ALL+p", ",=e", "cap_chown,=e", "cap_chown,,cap_kill=e", "Cap_Chown=e",
    "CAP_CHOWN,cap_kill+ep-i\tALL=e\n", "=e\x0b=p", "\x0b=e", "cap_chown=E", "ALL", "all", "aLl+p", "=e  =p", "\t=e\r\n",
    "cap_chown =e", "cap_chown= e", "cap_sys_admin=pe", "=eee",
];

pub fn gen(ctx: &mut Ctx) {
    let (si, sn) = ctx.shard;
    if si == 0 {
        for s in FIXED.iter() {
            ctx.req(&format!("caps {}", hx(s.as_bytes())));
            ctx.req(&format!("capspkg {}", hx(s.as_bytes())));
        }
    }
    // complete enumeration over the token alphabet
    let mut counter = 0u64;
    let max = ctx.q(5, 6);
    for len in 0..=max {
        layer(ctx, &TOKENS, len, &mut counter);
    }
    if ctx.thorough {
        layer(ctx, &TOKENS7, 7, &mut counter);
    }
    // seeded longer strings: grammar-shaped clauses with case variants, all whitespace kinds, defects
    let n = ctx.q(100_000u64, 1_000_000u64).div_ceil(sn);
    let npkg = ctx.q(400u64, 4_000u64).div_ceil(sn);
    for j in 0..n {
        let s = rand_text(&mut ctx.rng);
        ctx.req(&format!("caps {}", hx(s.as_bytes())));
        if j < npkg {
            ctx.req(&format!("capspkg {}", hx(s.as_bytes())));
        }
    }
}
