//! C19: file-capability text through the public API:
//! `FileCaps::from_str`, `FileCaps::new`, `Display`, `validate_caps_text`, `FileOptions::new(..).caps(..)`,
//! and (op `capspkg`) the stored value carried through `PackageBuilder::build` and read back.
use crate::common::*;
use rpm::{FileCaps, FileOptions};
use std::str::FromStr;

fn st(h: &str) -> String {
    String::from_utf8(unhx(h)).expect("utf8")
}

fn shown(r: Result<FileCaps, rpm::Error>) -> String {
    match r {
        Ok(c) => format!("ok {}", hx(c.to_string().as_bytes())),
        Err(_) => "err".to_string(),
    }
}

pub fn eval(op: &str, a: &[&str]) -> Option<String> {
    match op {
        "caps" => {
            let text = st(a[0]);
            let o1 = shown(FileCaps::from_str(&text));
            let o2 = shown(FileCaps::new(text.clone()));
            let o3 = if rpm::validate_caps_text(&text).is_ok() { "ok" } else { "err" };
            let o4 = if FileOptions::new("/usr/bin/c19").caps(text.as_str()).is_ok() { "ok" } else { "err" };
            let accepted = o1.starts_with("ok");
            if o1 == o2 && accepted == (o3 == "ok") && accepted == (o4 == "ok") {
                Some(o1)
            } else {
                Some(format!("split:from_str={};new={};validate={};caps={}", o1, o2, o3, o4).replace(' ', "_"))
            }
        }
        "capspkg" => {
            let text = st(a[0]);
            let opts = match FileOptions::new("/usr/bin/c19").caps(text.as_str()) {
                Ok(o) => o,
                Err(_) => return Some("err".to_string()),
            };
            // any readable regular file will do as content; the harness' own manifest always exists
            let src = concat!(env!("CARGO_MANIFEST_DIR"), "/Cargo.toml");
            let pkg = rpm::PackageBuilder::new("c19", "1.0.0", "MIT", "noarch", "caps carrier")
                .compression(rpm::CompressionType::None)
                .with_file(src, opts)
                .and_then(|b| b.build());
            let pkg = match pkg {
                Ok(p) => p,
                Err(_) => return Some("build-failed".to_string()),
            };
            let entries = match pkg.metadata.get_file_entries() {
                Ok(e) => e,
                Err(_) => return Some("entries-failed".to_string()),
            };
            match entries.first().and_then(|e| e.caps.as_ref()) {
                Some(c) => Some(format!("ok {}", hx(c.to_string().as_bytes()))),
                None => Some("caps-missing".to_string()),
            }
        }
        _ => None,
    }
}

/// the token alphabet named by the property's quantifier
const TOKENS: [&str; 13] = ["cap_chown", "cap_kill", "all", "cap_bogus", ",", "=", "+", "-", "e", "i", "p", "x", " "];
/// reduced alphabet for the longest layer of the thorough tier
const TOKENS7: [&str; 9] = ["cap_chown", "all", "cap_bogus", ",", "=", "+", "e", "x", " "];
/// non-ASCII tokens: names with a code point that a Unicode case mapping sends to an ASCII letter
/// (U+0131 dotless i ↦ I, U+017F long s ↦ S, U+00DF ß ↦ SS, U+FB06 ﬆ ↦ ST) or that lower-cases to one
/// (U+212A Kelvin sign), White_Space code points (U+00A0, U+3000, U+0085), a blank that is not White_Space
/// (U+200B), a non-ASCII letter, a full-width '=' (U+FF1D)
const UTOKENS: [&str; 11] = [
    "cap_k\u{131}ll", "cap_\u{17f}etuid", "cap_\u{212a}ill", "cap_f\u{df}etid", "cap_net_broadca\u{fb06}", "\u{a0}", "\u{3000}",
    "\u{85}", "\u{e9}", "\u{ff1d}", "\u{200b}",
];
/// reduced mixed alphabet for the longer layers with non-ASCII tokens
const MIXED: [&str; 12] =
    ["cap_chown", "cap_k\u{131}ll", "all", ",", "=", "+", "e", "x", " ", "\u{a0}", "\u{e9}", "\u{ff1d}"];

/// the Linux capability names (linux/capability.h), written independently of the crate's table
const NAMES: [&str; 41] = [
    "cap_chown", "cap_dac_override", "cap_dac_read_search", "cap_fowner", "cap_fsetid", "cap_kill", "cap_setgid",
    "cap_setuid", "cap_setpcap", "cap_linux_immutable", "cap_net_bind_service", "cap_net_broadcast", "cap_net_admin",
    "cap_net_raw", "cap_ipc_lock", "cap_ipc_owner", "cap_sys_module", "cap_sys_rawio", "cap_sys_chroot", "cap_sys_ptrace",
    "cap_sys_pacct", "cap_sys_admin", "cap_sys_boot", "cap_sys_nice", "cap_sys_resource", "cap_sys_time",
    "cap_sys_tty_config", "cap_mknod", "cap_lease", "cap_audit_write", "cap_audit_control", "cap_setfcap",
    "cap_mac_override", "cap_mac_admin", "cap_syslog", "cap_wake_alarm", "cap_block_suspend", "cap_audit_read",
    "cap_perfmon", "cap_bpf", "cap_checkpoint_restore",
];

/// every string of exactly `len` tokens over `alpha`, sharded by a running counter; with `non_ascii_only` the
/// strings without a non-ASCII character are skipped (the enumeration over the ASCII alphabet has them)
fn layer(ctx: &mut Ctx, alpha: &[&str], len: usize, counter: &mut u64, non_ascii_only: bool) {
    let (si, sn) = ctx.shard;
    let k = alpha.len();
    let total = (k as u64).pow(len as u32);
    let mut buf = String::new();
    for idx in 0..total {
        buf.clear();
        let mut x = idx;
        for _ in 0..len {
            buf.push_str(alpha[(x % k as u64) as usize]);
            x /= k as u64;
        }
        if non_ascii_only && buf.is_ascii() {
            continue;
        }
        let mine = *counter % sn == si;
        *counter += 1;
        if !mine {
            continue;
        }
        ctx.req(&format!("caps {}", hx(buf.as_bytes())));
    }
}

/// White_Space code points beyond ASCII (Unicode PropList.txt), written independently of the model
const UNI_WS: [char; 19] = [
    '\u{85}', '\u{a0}', '\u{1680}', '\u{2000}', '\u{2001}', '\u{2002}', '\u{2003}', '\u{2004}', '\u{2005}', '\u{2006}',
    '\u{2007}', '\u{2008}', '\u{2009}', '\u{200a}', '\u{2028}', '\u{2029}', '\u{202f}', '\u{205f}', '\u{3000}',
];
/// blanks / invisibles that are NOT White_Space
const NOT_WS: [char; 8] = ['\u{200b}', '\u{200c}', '\u{180e}', '\u{feff}', '\u{2060}', '\u{1c}', '\u{1f}', '\u{ad}'];

/// replace one character of a name by a non-ASCII look-alike / case-mapping relative, or decorate it
fn confuse(rng: &mut Rng, s: &str) -> String {
    let cs: Vec<char> = s.chars().collect();
    if cs.is_empty() {
        return "\u{e9}".to_string();
    }
    let pos = rng.below(cs.len() as u64) as usize;
    let c = cs[pos];
    let sub: String = match (c.to_ascii_lowercase(), rng.below(4)) {
        ('i', 0 | 1) => "\u{131}".into(),  // dotless i: to_uppercase = I
        ('i', _) => "\u{130}".into(),      // I with dot: to_lowercase = i + U+0307
        ('s', 0 | 1) => "\u{17f}".into(),  // long s: to_uppercase = S
        ('s', _) => "\u{df}".into(),       // sharp s: to_uppercase = SS
        ('k', _) => "\u{212a}".into(),     // Kelvin sign: to_lowercase = k
        ('a', 0) => "\u{430}".into(),      // Cyrillic a
        ('a', 1) => "\u{ff41}".into(),     // full-width a
        ('a', _) => "\u{e5}".into(),       // a with ring (U+212B Angstrom lower-cases to it)
        ('e', 0) => "\u{435}".into(),      // Cyrillic e
        ('e', _) => "\u{e9}".into(),
        ('c', _) => "\u{441}".into(),      // Cyrillic es
        ('p', _) => "\u{440}".into(),      // Cyrillic er
        ('o', _) => "\u{3bf}".into(),      // Greek omicron
        ('t', 0 | 1) if pos > 0 && cs[pos - 1].to_ascii_lowercase() == 's' => {
            // "st" -> ligature U+FB06 / U+FB05 (to_uppercase = ST): replaces two characters
            let lig = if rng.chance(1, 2) { '\u{fb06}' } else { '\u{fb05}' };
            let mut out: String = cs[..pos - 1].iter().collect();
            out.push(lig);
            out.extend(cs[pos + 1..].iter());
            return out;
        }
        ('_', _) => "\u{ff3f}".into(),     // full-width low line
        (_, 0) => format!("{}\u{301}", c),  // combining acute accent after the letter
        (_, 1) => char::from_u32(0xff00 + (c as u32 - 0x20)).map(|f| f.to_string()).unwrap_or_else(|| c.to_string()),
        (_, 2) => format!("{}\u{200d}", c), // zero width joiner
        _ => "\u{1d4b8}".into(),            // a supplementary-plane letter (4 UTF-8 bytes)
    };
    let mut out: String = cs[..pos].iter().collect();
    out.push_str(&sub);
    out.extend(cs[pos + 1..].iter());
    out
}

fn recase(rng: &mut Rng, s: &str) -> String {
    match rng.below(8) {
        0 | 1 | 2 | 3 => s.to_string(),
        4 => s.to_uppercase(),
        5 => {
            let mut c = s.chars();
            match c.next() {
                Some(f) => f.to_uppercase().collect::<String>() + c.as_str(),
                None => String::new(),
            }
        }
        _ => s.chars().map(|c| if rng.chance(1, 2) { c.to_ascii_uppercase() } else { c }).collect(),
    }
}

fn rand_ws(rng: &mut Rng) -> String {
    let n = if rng.chance(1, 5) { 2 } else { 1 };
    (0..n)
        .map(|_| match rng.below(44) {
            0..=24 => ' ',
            25..=30 => '\t',
            31..=35 => '\n',
            36 | 37 => '\r',
            38 => '\x0c',
            39 => '\x0b',
            40..=42 => *rng.pick(&UNI_WS),
            _ => *rng.pick(&NOT_WS),
        })
        .collect()
}

fn rand_clause(rng: &mut Rng) -> String {
    let mut out = String::new();
    match rng.below(12) {
        0 => {} // no name list
        1 | 2 => out.push_str(&recase(rng, "all")),
        _ => {
            let k = 1 + rng.below(3);
            for j in 0..k {
                if j > 0 {
                    out.push(',');
                }
                let name = match rng.below(40) {
                    0 => "all".to_string(),
                    1 => "cap_bogus".to_string(),
                    2 => String::new(),
                    3 => "chown".to_string(),
                    _ => rng.pick(&NAMES).to_string(),
                };
                let name = recase(rng, &name);
                // a non-ASCII character inside a name (after re-casing, so that it survives)
                out.push_str(&if rng.chance(1, 30) { confuse(rng, &name) } else { name });
            }
        }
    }
    if out.eq_ignore_ascii_case("all") && rng.chance(1, 20) {
        out = confuse(rng, &out);
    }
    let g = 1 + rng.below(3);
    for j in 0..g {
        // a clause without a name list is only legal with '='
        let op = if j == 0 && out.is_empty() && rng.chance(9, 10) { '=' } else { *rng.pick(&['=', '+', '-']) };
        // rarely a non-ASCII relative of the operator: full-width = + -, minus sign, small / superscript forms
        let op = if rng.chance(1, 80) {
            match op {
                '=' => *rng.pick(&['\u{ff1d}', '\u{fe66}', '\u{207c}']),
                '+' => *rng.pick(&['\u{ff0b}', '\u{fe62}', '\u{207a}']),
                _ => *rng.pick(&['\u{ff0d}', '\u{2212}', '\u{2010}', '\u{ad}']),
            }
        } else {
            op
        };
        out.push(op);
        let nf = match rng.below(16) {
            0 => 0,
            1..=7 => 1,
            8..=12 => 2,
            _ => 3,
        };
        for _ in 0..nf {
            out.push(match rng.below(80) {
                0 => 'x',
                1 => 'E',
                // non-ASCII relatives of the flags: dotless i, Cyrillic e / er, full-width e / p, e acute
                2 => *rng.pick(&['\u{131}', '\u{435}', '\u{440}', '\u{ff45}', '\u{ff50}', '\u{e9}', '\u{2170}']),
                _ => *rng.pick(&['e', 'i', 'p']),
            });
        }
    }
    out
}

const NOISE: [&str; 32] = [
    "=", "+", "-", ",", " ", "\t", "\n", "e", "i", "p", "x", "E", "_", "all", "cap_", "cap_kill", "\0", "\x1f", "\x7f", "é",
    "\u{a0}", "\u{131}", "\u{17f}", "\u{85}", "\u{3000}", "\u{2028}", "\u{200b}", "\u{ff0c}", "\u{ff1d}", "\u{301}", "\u{10ffff}",
    "\u{212a}",
];

fn rand_text(rng: &mut Rng) -> String {
    if rng.chance(1, 6) {
        // token soup, longer than the exhaustive layers
        let n = 6 + rng.below(14);
        return (0..n)
            .map(|_| {
                let t = if rng.chance(1, 12) { *rng.pick(&UTOKENS) } else { *rng.pick(&TOKENS) };
                if rng.chance(1, 6) { recase(rng, t) } else { t.to_string() }
            })
            .collect();
    }
    let n = 1 + rng.below(5);
    let mut s = String::new();
    if rng.chance(1, 6) {
        s.push_str(&rand_ws(rng));
    }
    for j in 0..n {
        if j > 0 {
            s.push_str(&rand_ws(rng));
        }
        s.push_str(&rand_clause(rng));
    }
    if rng.chance(1, 6) {
        s.push_str(&rand_ws(rng));
    }
    if rng.chance(1, 3) {
        let mut cs: Vec<char> = s.chars().collect();
        for _ in 0..1 + rng.below(2) {
            let pos = rng.below(cs.len() as u64 + 1) as usize;
            match rng.below(4) {
                0 if pos < cs.len() => {
                    cs.remove(pos);
                }
                1 if pos < cs.len() && pos > 0 => cs.swap(pos - 1, pos),
                2 if pos < cs.len() => {
                    let c = cs[pos];
                    cs.insert(pos, c);
                }
                _ => {
                    let ins: Vec<char> = rng.pick(&NOISE).chars().collect();
                    for (o, c) in ins.into_iter().enumerate() {
                        cs.insert(pos + o, c);
                    }
                }
            }
        }
        s = cs.into_iter().collect();
    }
    s
}

/// the strings of the crate's own unit tests and of the spec's comments
const FIXED: [&str; 78] = [
    "", " ", "cap_chown", "+eip", "-eip", "cap_chown+-p", "cap_chown=-p", "cap_chown+y", "cap_noexist+p", "cap_chown=p",
    "cap_chown+p", "cap_chown+ie", "=e cap_chown-e", "=e", "all=e", "=e +p", "=e -p", "cap_chown=e +p", "=", "cap_chown+",
    "cap_kill=e-", "all,cap_chown=e", "cap_kill,ALL+p", ",=e", "cap_chown,=e", "cap_chown,,cap_kill=e", "Cap_Chown=e",
    "CAP_CHOWN,cap_kill+ep-i\tALL=e\n", "=e\x0b=p", "\x0b=e", "cap_chown=E", "ALL", "all", "aLl+p", "=e  =p", "\t=e\r\n",
    "cap_chown =e", "cap_chown= e", "cap_sys_admin=pe", "=eee",
    // non-ASCII: names that a Unicode case mapping turns into a capability name (the defect fixed by e20037b) …
    "cap_k\u{131}ll=ep", "cap_\u{17f}etuid=ep", "cap_net_broadca\u{fb06}=p", "cap_sy\u{17f}_admin,cap_kill=e", "CAP_K\u{131}LL=e",
    "cap_\u{212a}ill=e", "cap_f\u{df}etid=e", "cap_k\u{130}ll=e", "\u{ff41}ll=e", "a\u{131}l=e", "cap_chown\u{301}=e", "\u{e9}", "\u{e9}=e",
    // … operators / flags / commas that are not the ASCII characters …
    "cap_chown\u{ff1d}e", "cap_chown=\u{435}", "cap_chown=e\u{131}", "cap_chown\u{ff0c}cap_kill=e",
    // … White_Space beyond ASCII as separator / padding, and blanks that are not White_Space
    // numbers are not capability names (libcap's cap_from_name accepts them, this grammar names them nowhere; seed C17-9:
    // numeric capabilities below 64 accepted and rendered through CAPS[n], 41 entries)
    "45=p", "0=e", "40+p", "41=ep", "63=p", "64=p", "cap_chown,45=p", "7,8=ep", "007=e", "4294967296=e", "-1=e", "1e1=p", "0x10=e", "cap_45=e",
    "=e\u{a0}=p", "cap_chown=e\u{3000}", "\u{85}=e", "\u{2003}", "=e\u{a0}+p", "=e\u{200b}=p", "\u{feff}=e",
];

pub fn gen(ctx: &mut Ctx) {
    let (si, sn) = ctx.shard;
    if si == 0 {
        for s in FIXED.iter() {
            ctx.req(&format!("caps {}", hx(s.as_bytes())));
            ctx.req(&format!("capspkg {}", hx(s.as_bytes())));
        }
    }
    // complete enumeration over the token alphabet
    let mut counter = 0u64;
    let max = ctx.q(5, 6);
    for len in 0..=max {
        layer(ctx, &TOKENS, len, &mut counter, false);
    }
    if ctx.thorough {
        layer(ctx, &TOKENS7, 7, &mut counter, false);
    }
    // the alphabet enlarged by the non-ASCII tokens: complete up to 3 (quick) / 4 (thorough) tokens, then one or two more
    // layers over a reduced mixed alphabet (strings without a non-ASCII character are in the enumeration above)
    let big: Vec<&str> = TOKENS.iter().chain(UTOKENS.iter()).copied().collect();
    let umax = ctx.q(3, 4);
    for len in 1..=umax {
        layer(ctx, &big, len, &mut counter, true);
    }
    for len in umax + 1..=ctx.q(4, 6) {
        layer(ctx, &MIXED, len, &mut counter, true);
    }
    // seeded longer strings: grammar-shaped clauses with case variants, all whitespace kinds, defects
    let n = ctx.q(100_000u64, 1_000_000u64).div_ceil(sn);
    let npkg = ctx.q(400u64, 4_000u64).div_ceil(sn);
    for j in 0..n {
        let s = rand_text(&mut ctx.rng);
        ctx.req(&format!("caps {}", hx(s.as_bytes())));
        if j < npkg {
            ctx.req(&format!("capspkg {}", hx(s.as_bytes())));
        }
    }
}
