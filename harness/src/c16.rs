//! C16: reported segment offsets are the real byte boundaries of the written package.
use crate::common::*;
use crate::pkggen::*;
use std::io::Write;

fn observe(bytes: &[u8]) -> String {
    observe_variant("parsed", bytes)
}

/// offsets of a value that was changed in memory after parsing (cleared / re-created signature header)
fn observe_variant(variant: &str, bytes: &[u8]) -> String {
    let mut p = match rpm::Package::parse(&mut &bytes[..]) {
        Ok(p) => p,
        Err(_) => return "err".into(),
    };
    match variant {
        "clear" => p.metadata.signature.clear(),
        "newempty" => p.metadata.signature = rpm::Header::<rpm::IndexSignatureTag>::new_empty(),
        "clearsig" => { if p.clear_signatures().is_err() { return "err".into(); } }
        "signE" => {
            let key = match std::fs::read("/repo/tests/assets/signing_keys/secret_ed25519.asc") { Ok(k) => k, Err(_) => return "err".into() };
            let signer = match rpm::signature::pgp::Signer::load_from_asc_bytes(&key) { Ok(s) => s, Err(_) => return "err".into() };
            if p.sign_with_timestamp(signer, 1_600_000_000u32).is_err() { return "err".into(); }
        }
        "signNow" => {
            // `Package::sign` (signature time = now) with the signer passed by reference (`impl Signing for &T`)
            let key = match std::fs::read("/repo/tests/assets/signing_keys/secret_ed25519.asc") { Ok(k) => k, Err(_) => return "err".into() };
            let signer = match rpm::signature::pgp::Signer::load_from_asc_bytes(&key) { Ok(s) => s, Err(_) => return "err".into() };
            let digests_ok = p.verify_digests().is_ok();
            if p.sign(&signer).is_err() { return "err".into(); }
            // the fresh signature must verify under the matching public key (judged only when the package's recorded
            // digests were consistent to begin with: `verify_signature` checks them first)
            let pubkey = match std::fs::read("/repo/tests/assets/signing_keys/public_ed25519.asc") { Ok(k) => k, Err(_) => return "err".into() };
            let verifier = match rpm::signature::pgp::Verifier::load_from_asc_bytes(&pubkey) { Ok(v) => v, Err(_) => return "err".into() };
            if digests_ok && p.verify_signature(&verifier).is_err() { return "err-verify".into(); }
        }
        _ => {}
    }
    let o = p.metadata.get_package_segment_offsets();
    // "the bytes produced by writing the package": every other case writes through a sink that takes at most three bytes per
    // call and is interrupted now and then — the written bytes, and with them the boundaries, must not depend on the sink
    // (seeds C16-6, C16-8: a single `write` for the intro / the padding)
    let mut w = Vec::new();
    if bytes.len() % 2 == 1 {
        let mut t = Trickle { got: Vec::new(), calls: 0 };
        if p.write(&mut t).is_err() {
            return "err-write".into();
        }
        w = t.got;
    } else if p.write(&mut w).is_err() {
        return "err-write".into();
    }
    let intro_at = |pos: u64| -> bool {
        let pos = pos as usize;
        w.len() >= pos + 4 && w[pos..pos + 3] == [0x8e, 0xad, 0xe8] && w[pos + 3] == 1
    };
    format!(
        "ok {} {} {} {} wlen={} clen={} i1={} i2={}",
        o.lead, o.signature_header, o.header, o.payload, w.len(), p.content.len(), intro_at(o.signature_header), intro_at(o.header)
    )
}

/// accepts at most three bytes per call; every seventh call is `Interrupted`
struct Trickle {
    got: Vec<u8>,
    calls: u64,
}
impl Write for Trickle {
    fn write(&mut self, b: &[u8]) -> std::io::Result<usize> {
        self.calls += 1;
        if self.calls % 7 == 0 {
            return Err(std::io::Error::from(std::io::ErrorKind::Interrupted));
        }
        let n = b.len().min(3);
        self.got.extend_from_slice(&b[..n]);
        Ok(n)
    }
    fn flush(&mut self) -> std::io::Result<()> { Ok(()) }
}

/// a counting sink: remembers where header intros start without storing 4 GiB
struct Counting {
    n: u64,
}
impl Write for Counting {
    fn write(&mut self, b: &[u8]) -> std::io::Result<usize> {
        self.n += b.len() as u64;
        Ok(b.len())
    }
    fn flush(&mut self) -> std::io::Result<()> { Ok(()) }
}

/// `offbig DL`: a package whose signature header has 0 entries and a DL-byte store (needs ~2·DL RAM)
fn offbig(dl: u64) -> String {
    let mut bytes = gen_lead(&mut Rng::new(1), false);
    bytes.extend_from_slice(&[0x8e, 0xad, 0xe8, 1, 0, 0, 0, 0, 0, 0, 0, 0]);
    bytes.extend_from_slice(&(dl as u32).to_be_bytes());
    let pad = (8 - dl % 8) % 8;
    bytes.resize(bytes.len() + (dl + pad) as usize, 0);
    bytes.extend_from_slice(&[0x8e, 0xad, 0xe8, 1, 0, 0, 0, 0, 0, 0, 0, 0, 0, 0, 0, 0]);
    bytes.extend_from_slice(&[1, 2, 3]);
    let total = bytes.len() as u64;
    let p = match rpm::PackageMetadata::parse(&mut &bytes[..]) {
        Ok(p) => p,
        Err(_) => return "err".into(),
    };
    drop(bytes);
    let o = p.get_package_segment_offsets();
    let mut c = Counting { n: 0 };
    if p.write(&mut c).is_err() {
        return "err-write".into();
    }
    // metadata length as written + 3 payload bytes = total
    // the counting sink cannot look at bytes; the written length must equal the input length (C01)
    let same = c.n + 3 == total;
    format!("ok {} {} {} {} wlen={} clen=3 i1={} i2={}", o.lead, o.signature_header, o.header, o.payload, c.n + 3, same, same)
}

/// `offbig16 WHICH N DL`: the signature (`s`) or MAIN (`h`) header has N NULL entries (tag = index, type 0) and a DL-byte
/// store, the other header is empty, 3 payload bytes. `Header::size` / `get_package_segment_offsets` with
/// `num_entries * 16` beyond u32 (N >= 2^28; needs ~5 GiB for the bytes and ~13 GiB for the parsed entries) and with large
/// MAIN stores; smaller N / DL run in the quick tier.
fn offbig16(which: &str, n: u64, dl: u64) -> String {
    let mut bytes = gen_lead(&mut Rng::new(1), false);
    let empty = [0x8e, 0xad, 0xe8, 1, 0, 0, 0, 0, 0, 0, 0, 0, 0, 0, 0, 0];
    let big = |bytes: &mut Vec<u8>, pad: bool| {
        bytes.extend_from_slice(&[0x8e, 0xad, 0xe8, 1, 0, 0, 0, 0]);
        bytes.extend_from_slice(&(n as u32).to_be_bytes());
        bytes.extend_from_slice(&(dl as u32).to_be_bytes());
        bytes.reserve((16 * n + dl + 32) as usize);
        for i in 0..n {
            bytes.extend_from_slice(&(i as u32).to_be_bytes());
            bytes.extend_from_slice(&[0u8; 12]);
        }
        let p = if pad { (8 - dl % 8) % 8 } else { 0 };
        bytes.resize(bytes.len() + (dl + p) as usize, 0);
    };
    if which == "s" {
        big(&mut bytes, true);
        bytes.extend_from_slice(&empty);
    } else {
        bytes.extend_from_slice(&empty);
        big(&mut bytes, false);
    }
    bytes.extend_from_slice(&[1, 2, 3]);
    let total = bytes.len() as u64;
    let p = match rpm::PackageMetadata::parse(&mut &bytes[..]) {
        Ok(p) => p,
        Err(_) => return "err".into(),
    };
    drop(bytes);
    let o = p.get_package_segment_offsets();
    let mut c = Counting { n: 0 };
    if p.write(&mut c).is_err() {
        return "err-write".into();
    }
    let same = c.n + 3 == total;
    format!("ok {} {} {} {} wlen={} clen=3 i1={} i2={}", o.lead, o.signature_header, o.header, o.payload, c.n + 3, same, same)
}

pub fn eval(op: &str, a: &[&str]) -> Option<String> {
    match op {
        "offbig16" => Some(offbig16(a[0], a[1].parse().ok()?, a[2].parse().ok()?)),
        "offsets" => Some(observe(&arg_bytes(a[0]))),
        "offv" => Some(observe_variant(a[0], &arg_bytes(a[1]))),
        "offbig" => Some(offbig(a[0].parse().ok()?)),
        _ => None,
    }
}

pub fn gen(ctx: &mut Ctx) {
    let (si, sn) = ctx.shard;
    if si == 0 {
        for p in asset_paths() {
            ctx.req(&format!("offsets @{}", p.display()));
        }
        for f in ["rpm-empty-0-0.src.rpm", "rpm-empty-0-0.x86_64.rpm"] {
            ctx.req(&format!("offsets @/repo/test_assets/fixture_packages/{}", f));
        }
        // hand-encoded: 0..40 entries × store sizes covering all residues mod 8
        let mut rng = Rng::new(ctx.seed);
        for n in [0usize, 1, 2, 3, 7, 8, 15, 16, 17, 40] {
            for slack in 0..8usize {
                let mut sig = GHeader::new();
                for i in 0..n {
                    sig.push(1000 + i as u32, 7, &TData::Bytes(vec![i as u8; 1 + i % 3]));
                }
                sig.store.extend(std::iter::repeat(0xaa).take(slack));
                let hdr = gen_header_wf(&mut rng);
                let lead = gen_lead(&mut rng, false);
                let pay = rng.bytes(slack * 3);
                ctx.req(&format!("offsets {}", hx(&assemble(&lead, &sig, 0x55, &hdr, &pay))));
            }
        }
        // a STRING entry that runs into the end of the data section without its NUL (accepted by the parser): in the signature
        // header, in the main header, in both; with every store length mod 8 (seed C16-10: the parser "repaired" the store by
        // appending the NUL while the recorded section size stayed)
        for pre in 0..8usize {
            for which in 0..3 {
                let mk = |unterminated: bool| {
                    let mut h = GHeader::new();
                    h.push(1000, 7, &TData::Bytes(vec![0x11; pre]));
                    if unterminated { h.push(1001, 6, &TData::Bytes(b"abc".to_vec())); } else { h.push(1001, 6, &TData::Str(b"abc".to_vec())); }
                    h
                };
                let sig = mk(which != 1);
                let hdr = mk(which != 0);
                let lead = gen_lead(&mut rng, false);
                ctx.req(&format!("offsets {}", hx(&assemble(&lead, &sig, 0, &hdr, &[9u8; 25]))));
            }
        }
        // widths (audit a15): many entries / a large store in the MAIN header as well as in the signature header; the sizes
        // where `num_entries * 16` or the sum leaves u32 are thorough-only (memory), the code path is the same
        for (which, n, dl) in [("h", 0u64, 70_000u64), ("h", 4096, 100_001), ("h", 65_536, 0), ("s", 65_536, 5), ("h", 1 << 20, 3), ("s", 1 << 18, 7)] {
            ctx.req(&format!("offbig16 {} {} {}", which, n, dl));
        }
        if ctx.thorough {
            // the >= 4 GiB guard of the old u32 arithmetic: stores just below 2^32 (8-9 GiB of RAM, ~20 s)
            ctx.req("offbig 4294967280");
            ctx.req("offbig 4294967295");
            // the same for the MAIN header, and 2^28 index entries (16 * 2^28 = 2^32: `Header::size` and `size_rest` must widen
            // before they multiply; 21 GiB of RAM, 1 - 10 min depending on the load of the machine)
            ctx.req("offbig16 h 0 4294967295");
            ctx.req("offbig16 h 268435456 0");
        }
    }
    let n = ctx.q(10_000u64, 200_000) / sn;
    for i in 0..n {
        let bytes = gen_package_wf(&mut ctx.rng);
        ctx.req(&format!("offsets {}", hx(&bytes)));
        // values modified in memory: cleared / fresh / recomputed signature header
        if i % 10 == 0 {
            let v = *ctx.rng.pick(&["clear", "newempty", "clearsig", "signE", "signNow"]);
            ctx.req(&format!("offv {} {}", v, hx(&bytes)));
        }
    }
}
