//! Differential harness: runs the real rpm-rs code (path dependency on /repo's working tree) and
//! writes one protocol line per case: `<request> => <implementation observation>`.
//! usage: harness <property> [--seed N] [--tier quick|thorough] [--shard i/n] [--out FILE] [extra…]
mod common;
mod c13;
mod c09;
mod c10;
mod c02;
mod c11;
mod c08;
mod c14;
mod c12;
mod c03;
mod c17;
mod c07;
mod c06;
mod c04;
mod c05;
mod c19;
mod c15;
mod c18;
mod c20;
mod c01;
mod c16;
mod pkggen;
mod bld;

use common::*;

#[global_allocator]
static GLOBAL: c04::Counting = c04::Counting;
use std::io::{BufWriter, Write};

/// evaluate one request line against the real code; a panic becomes the observation `panic`
pub fn eval_request(req: &str) -> String {
    let toks: Vec<&str> = req.split(' ').filter(|t| !t.is_empty()).collect();
    if toks.is_empty() {
        return "bad-request".into();
    }
    let (op, a) = (toks[0], &toks[1..]);
    let r = guarded(std::panic::AssertUnwindSafe(|| {
        None // one line per property module
            .or_else(|| c13::eval(op, a))
            .or_else(|| c09::eval(op, a))
            .or_else(|| c10::eval(op, a))
            .or_else(|| c02::eval(op, a))
            .or_else(|| c11::eval(op, a))
            .or_else(|| c08::eval(op, a))
            .or_else(|| c14::eval(op, a))
            .or_else(|| c12::eval(op, a))
            .or_else(|| c03::eval(op, a))
            .or_else(|| c17::eval(op, a))
            .or_else(|| c07::eval(op, a))
            .or_else(|| c06::eval(op, a))
            .or_else(|| bld::eval(op, a))
            .or_else(|| c04::eval(op, a))
            .or_else(|| c05::eval(op, a))
            .or_else(|| c19::eval(op, a))
            .or_else(|| c15::eval(op, a))
            .or_else(|| c18::eval(op, a))
            .or_else(|| c20::eval(op, a))
            .or_else(|| c01::eval(op, a))
            .or_else(|| c16::eval(op, a))
    }));
    match r {
        Ok(Some(s)) => s,
        Ok(None) => "bad-request".into(),
        Err(_) => "panic".into(),
    }
}

fn main() {
    let args: Vec<String> = std::env::args().collect();
    if args.len() < 2 {
        eprintln!("usage: harness <property> [--seed N] [--tier T] [--shard i/n] [--out FILE]");
        std::process::exit(2);
    }
    if args[1] == "reprochild" {
        c11::child_main(&args[2..]);
        return;
    }
    let prop = args[1].clone();
    let mut seed = 1u64;
    let mut thorough = false;
    let mut shard = (0u64, 1u64);
    // the library itself prints to stdout on some error paths (`println!` in get_file_entries):
    // keep the protocol stream on the original stdout and send everything else to stderr
    let mut out: Box<dyn Write> = unsafe {
        use std::os::fd::FromRawFd;
        let orig = libc::dup(1);
        libc::dup2(2, 1);
        Box::new(BufWriter::with_capacity(1 << 20, std::fs::File::from_raw_fd(orig)))
    };
    let mut extra = Vec::new();
    let mut variant = String::new();
    let mut i = 2;
    while i < args.len() {
        match args[i].as_str() {
            "--seed" => { seed = args[i + 1].parse().unwrap_or(1); i += 2; }
            "--tier" => { thorough = args[i + 1] == "thorough"; i += 2; }
            "--shard" => {
                let p: Vec<&str> = args[i + 1].split('/').collect();
                shard = (p[0].parse().unwrap(), p[1].parse().unwrap());
                i += 2;
            }
            "--variant" => { variant = args[i + 1].clone(); i += 2; }
            "--out" => {
                out = Box::new(BufWriter::with_capacity(1 << 20, std::fs::File::create(&args[i + 1]).unwrap()));
                i += 2;
            }
            other => { extra.push(other.to_string()); i += 1; }
        }
    }
    // silence the default panic message; cases record panics themselves
    std::panic::set_hook(Box::new(|_| {}));
    let mut ctx = Ctx { seed, thorough, rng: Rng::new(seed ^ (shard.0 << 32)), out, shard, n: 0, args: extra, variant };
    match prop.as_str() {
        "eval" => {
            // replay mode: request lines on stdin (anything after " => " is ignored)
            let mut line = String::new();
            while std::io::stdin().read_line(&mut line).unwrap_or(0) > 0 {
                let req = line.trim_end().split(" => ").next().unwrap_or("").to_string();
                if !req.is_empty() { ctx.req(&req); }
                line.clear();
            }
        }
        "C13" => c13::gen(&mut ctx),
        "C09" => c09::gen(&mut ctx),
        "C10" => c10::gen(&mut ctx),
        "C02" => c02::gen(&mut ctx),
        "C11" => c11::gen(&mut ctx),
        "C08" => c08::gen(&mut ctx),
        "C14" => c14::gen(&mut ctx),
        "C12" => c12::gen(&mut ctx),
        "C03" => c03::gen(&mut ctx),
        "C17" => c17::gen(&mut ctx),
        "C07" => c07::gen(&mut ctx),
        "C06" => c06::gen(&mut ctx),
        "C04" => c04::gen(&mut ctx),
        "C05" => c05::gen(&mut ctx),
        "C19" => c19::gen(&mut ctx),
        "C15" => c15::gen(&mut ctx),
        "C18" => c18::gen(&mut ctx),
        "C20" => c20::gen(&mut ctx),
        "C01" => c01::gen(&mut ctx),
        "C16" => c16::gen(&mut ctx),
        _ => { eprintln!("unknown property {}", prop); std::process::exit(2); }
    }
    ctx.out.flush().unwrap();
}
