//! Shared builder front-end: a compact textual configuration → the real `PackageBuilder`.
//! Used by C06 (read-back), C08 (digests), C09 (structural validity), C11 (reproducibility).
//!
//! tokens (values hex, `-` = empty): n= v= l= a= s=   (name version license arch summary, required)
//!   e=<u32> r= d= ve= pk= g= u= vc= ck= bh=  sd=<u32> now=<u32> lf=<u64> c=<none|gzip:L|zstd:L|xz:L|bzip2:L>
//!   f=<dest>:<mode>:<user>:<group>:<flags>:<caps|~>:<link>:<mtime>:<seed>:<size>:<verifyflags|~>[:<extras>]
//!     <mode>   i<perm>  no mode() call; the source file is chmod-ed to <perm> (DECIMAL, all 12 bits) and the mode is inherited
//!              <n>      .mode(n as i32) after symlink(); n is a SIGNED decimal (values outside 16 bits become FileMode::Invalid)
//!              f<n> / l<n>  the same call made first (right after new()) / last (after the flag setters); u<n>  .mode(n as u16)
//!     <flags>  `+`-separated is_* setter names without the prefix, in call order (`config_noreplace+doc`); 0 = none;
//!              a number = legacy encoding (bit 2 doc, 1 config, 16 config_noreplace, 64 ghost, 128 license, 256 readme)
//!     <mtime>  signed seconds (pre-1970 and post-2106 are legal file times); extras: `+`-separated ns=<nanos>,
//!              k=<dir|missing> (the source path is a directory / does not exist)
//!   c=<none|gzip:L|zstd:L|xz:L|bzip2:L>  compression(CompressionWithLevel); c=<type>:d  compression(CompressionType::<type>);
//!     no c= token: no compression() call at all (CompressionWithLevel::default())
//!   dp=<prov|req|conf|obs|rec|sug|enh|sup>:<name>:<flags>:<version>   dpc=<kind>:<ctor>:<name>:<version> (public constructor by name)
//!   scs=<kind>:<text> (scriptlet from &str / String)   clt=<name>:<text>:<u32|sys|utc|fix>:<secs>:<nanos>   sdt=<kind>:<secs>:<nanos>
//!   sgn=bs (build_and_sign) | sgn=b+s (build, then sign); every e= r= d= ve= pk= g= u= vc= ck= bh= c= token is ONE call, in token order
//!   sc=<prein|postin|preun|postun|pretrans|posttrans|preuntrans|postuntrans|verify>:<script>:<flags|~>:<p1,p2|~|->
//!   cl=<name>:<text>:<time>
use crate::common::*;
use std::os::unix::fs::PermissionsExt;

pub fn hs(h: &str) -> String {
    String::from_utf8(unhx(h)).expect("utf8 in cfg")
}

/// deterministic file content from (seed, size): even seeds compressible, odd seeds PRNG bytes
pub fn content(seed: u64, size: usize) -> Vec<u8> {
    if seed % 2 == 0 {
        (0..size).map(|i| ((i as u64 + seed) % 251) as u8).collect()
    } else {
        let mut r = Rng(seed);
        (0..size).map(|_| r.next() as u8).collect()
    }
}

pub struct Built {
    pub pkg: rpm::Package,
}

pub fn scratch_dir() -> std::path::PathBuf {
    let d = std::path::PathBuf::from(format!("work/bld-{}", std::process::id()));
    let _ = std::fs::create_dir_all(&d);
    d
}

pub fn builder_from(tokens: &[&str]) -> Result<rpm::PackageBuilder, rpm::Error> {
    let get = |k: &str| tokens.iter().find_map(|t| t.strip_prefix(k).and_then(|r| r.strip_prefix('=')));
    let req = |k: &str| hs(get(k).unwrap_or("-"));
    let mut b = rpm::PackageBuilder::new(&req("n"), &req("v"), &req("l"), &req("a"), &req("s"));
    rpm::verif_hooks::set_now(get("now").map(|x| x.parse().unwrap()));
    rpm::verif_hooks::set_large_file_threshold(get("lf").map(|x| x.parse().unwrap()));
    // metadata setters: EVERY occurrence of a token is a call, in token order (a repeated token = a repeated call: the last
    // one must win; model `Bld.MetaSetter.apply`)
    for t in tokens {
        let Some((k, x)) = t.split_once('=') else { continue };
        b = match k {
            "e" => b.epoch(x.parse().unwrap()),
            "r" => b.release(hs(x)),
            "d" => b.description(hs(x)),
            "ve" => b.vendor(hs(x)),
            "pk" => b.packager(hs(x)),
            "g" => b.group(hs(x)),
            "u" => b.url(hs(x)),
            "vc" => b.vcs(hs(x)),
            "ck" => b.cookie(hs(x)),
            "bh" => b.build_host(hs(x)),
            // `clast`: compression() is called AFTER source_date() instead (seed C11-9: a compression() that rebuilt its
            // configuration from the default dropped a source date set earlier); the setters are independent of each other
            "c" => if tokens.iter().any(|t| *t == "clast") { b } else { apply_compression(b, x) },
            _ => b,
        };
    }
    // `sdlast`: call source_date() AFTER the files were added (the order used in the crate's own docs)
    let sd_last = tokens.iter().any(|t| *t == "sdlast");
    if !sd_last {
        if let Some(x) = get("sd") { b = apply_source_date(b, x.parse::<u32>().unwrap(), get("sdk").unwrap_or("u32")); }
        // `sdneg=<s>`: a source date s seconds BEFORE 1970 (a date-time no Timestamp can hold): today the setter panics (known
        // finding C17); should it ever be accepted instead, nothing in the package may be later than that date (seed C11-10)
        if let Some(x) = get("sdneg") { b = b.source_date(chrono::DateTime::from_timestamp(-(x.parse::<i64>().unwrap()), 0).unwrap()); }
        if let Some(x) = get("sdt") { b = apply_typed_source_date(b, x); }
    }
    if tokens.iter().any(|t| *t == "clast") {
        if let Some(x) = get("c") { b = apply_compression(b, x); }
    }
    let dir = scratch_dir();
    let mut fi = 0;
    let mut last_src: Option<std::path::PathBuf> = None;
    for t in tokens {
        if let Some(r) = t.strip_prefix("f=") {
            let p: Vec<&str> = r.split(':').collect();
            let (dest, mode, user, group, flags, caps, link, mtime, seed, size, vf) =
                (hs(p[0]), p[1], hs(p[2]), hs(p[3]), p[4], p[5], hs(p[6]), p[7].parse::<i64>().unwrap(), p[8].parse::<u64>().unwrap(), p[9].parse::<usize>().unwrap(), p[10]);
            let extras: Vec<&str> = if p.len() > 11 { p[11].split('+').collect() } else { vec![] };
            let extra = |k: &str| extras.iter().find_map(|e| e.strip_prefix(k).and_then(|r| r.strip_prefix('=')));
            let nanos: u32 = extra("ns").map(|x| x.parse().unwrap()).unwrap_or(0);
            let kind = extra("k").unwrap_or("reg");
            // every fourth file re-uses the previous file's source path, rewritten with its own content (and given
            // its own mtime) between the two `with_file` calls: the builder must take what the path holds NOW
            let src = match &last_src {
                Some(prev) if seed % 4 == 2 && kind == "reg" => prev.clone(),
                _ => dir.join(format!("src{}", fi)),
            };
            fi += 1;
            // where the mode() call goes: 'i' none (inherit), 'm' after symlink(), 'f' first, 'l' last, 'u' as u16
            let (pos, marg) = match mode.chars().next() {
                Some(c @ ('i' | 'f' | 'l' | 'u')) => (c, &mode[1..]),
                _ => ('m', mode),
            };
            let set_mode = |o: rpm::FileOptionsBuilder| -> rpm::FileOptionsBuilder {
                if pos == 'u' { o.mode(marg.parse::<u16>().unwrap()) } else { o.mode(marg.parse::<i32>().unwrap()) }
            };
            match kind {
                "dir" => { let _ = std::fs::remove_file(&src); std::fs::create_dir_all(&src)?; }
                "missing" => { let _ = std::fs::remove_file(&src); let _ = std::fs::remove_dir(&src); }
                _ => {
                    let _ = std::fs::remove_dir(&src);
                    let _ = std::fs::set_permissions(&src, std::fs::Permissions::from_mode(0o644));
                    std::fs::write(&src, content(seed, size))?;
                    last_src = Some(src.clone());
                    if pos == 'i' {
                        std::fs::set_permissions(&src, std::fs::Permissions::from_mode(marg.parse::<u32>().unwrap() & 0o7777))?;
                    }
                    let f = std::fs::File::options().write(true).open(&src)?;
                    f.set_modified(file_time(mtime, nanos))?;
                    drop(f);
                }
            }
            let mut o = rpm::FileOptions::new(dest);
            if pos == 'f' { o = set_mode(o); }
            o = o.user(user).group(group).symlink(link);
            if pos == 'm' || pos == 'u' { o = set_mode(o); }
            if caps != "~" { o = o.caps(hs(caps))?; }
            if vf != "~" { o = o.verify(rpm::FileVerifyFlags::from_bits_retain(vf.parse().unwrap())); }
            // flags: FileOptionsBuilder only has named setters
            for name in flag_setter_names(flags) { o = apply_flag_setter(o, &name); }
            if pos == 'l' { o = set_mode(o); }
            // every third source is handed over through a symbolic link: the builder must package (and inherit
            // mode / mtime from) the file the path resolves to, as `File::open` + `metadata()` do
            if seed % 3 == 1 && kind == "reg" {
                let lnk = dir.join(format!("src{}.lnk", fi));
                let _ = std::fs::remove_file(&lnk);
                // relative target, resolved in the link's own directory
                std::os::unix::fs::symlink(src.file_name().unwrap(), &lnk)?;
                b = b.with_file(&lnk, o)?;
            } else {
                b = b.with_file(&src, o)?;
            }
        } else if let Some(r) = t.strip_prefix("dp=") {
            let p: Vec<&str> = r.split(':').collect();
            let d = rpm::Dependency { name: hs(p[1]), flags: rpm::DependencyFlags::from_bits_retain(p[2].parse().unwrap()), version: hs(p[3]) };
            b = match p[0] {
                "prov" => b.provides(d), "req" => b.requires(d), "conf" => b.conflicts(d), "obs" => b.obsoletes(d),
                "rec" => b.recommends(d), "sug" => b.suggests(d), "enh" => b.enhances(d), "sup" => b.supplements(d),
                _ => panic!("bad dep kind"),
            };
        } else if let Some(r) = t.strip_prefix("dpc=") {
            // `dpc=<kind>:<ctor>:<name>:<version>`: a dependency made by one of the public `Dependency` constructors
            let p: Vec<&str> = r.split(':').collect();
            let d = crate::c06::make_dep(p[1], &hs(p[2]), &hs(p[3])).expect("unknown Dependency constructor");
            b = match p[0] {
                "prov" => b.provides(d), "req" => b.requires(d), "conf" => b.conflicts(d), "obs" => b.obsoletes(d),
                "rec" => b.recommends(d), "sug" => b.suggests(d), "enh" => b.enhances(d), "sup" => b.supplements(d),
                _ => panic!("bad dep kind"),
            };
        } else if let Some(r) = t.strip_prefix("sc=") {
            let p: Vec<&str> = r.split(':').collect();
            let mut s = rpm::Scriptlet::new(hs(p[1]));
            if p[2] != "~" { s = s.flags(rpm::ScriptletFlags::from_bits_retain(p[2].parse().unwrap())); }
            // an EMPTY interpreter list, alternately through `prog(vec![])` and by writing the public field directly
            // (`Scriptlet { program: Some(vec![]), .. }`): either way no PROG entry may be emitted (seed C09-12: the empty-list
            // guard moved from `apply` into `prog()`, a count-0 string array for values built by field assignment)
            if p[3] == "-" {
                if hs(p[1]).len() % 2 == 0 { s = s.prog(Vec::<String>::new()); } else { s.program = Some(Vec::new()); }
            }
            else if p[3] != "~" { s = s.prog(p[3].split(',').map(hs).collect::<Vec<String>>()); }
            b = match p[0] {
                "prein" => b.pre_install_script(s), "postin" => b.post_install_script(s), "preun" => b.pre_uninstall_script(s),
                "postun" => b.post_uninstall_script(s), "pretrans" => b.pre_trans_script(s), "posttrans" => b.post_trans_script(s),
                "preuntrans" => b.pre_untrans_script(s), "postuntrans" => b.post_untrans_script(s), "verify" => b.verify_script(s),
                _ => panic!("bad script kind"),
            };
        } else if let Some(r) = t.strip_prefix("scs=") {
            // `impl<T: Into<String>> From<T> for Scriptlet`: the text itself is handed to the setter (a `String` for even, a `&str`
            // for odd text lengths)
            let p: Vec<&str> = r.split(':').collect();
            let text = hs(p[1]);
            macro_rules! set { ($m:ident) => { if text.len() % 2 == 0 { b.$m(text.clone()) } else { b.$m(text.as_str()) } } }
            b = match p[0] {
                "prein" => set!(pre_install_script), "postin" => set!(post_install_script), "preun" => set!(pre_uninstall_script),
                "postun" => set!(post_uninstall_script), "pretrans" => set!(pre_trans_script), "posttrans" => set!(post_trans_script),
                "preuntrans" => set!(pre_untrans_script), "postuntrans" => set!(post_untrans_script), "verify" => set!(verify_script),
                _ => panic!("bad script kind"),
            };
        } else if let Some(r) = t.strip_prefix("cl=") {
            let p: Vec<&str> = r.split(':').collect();
            b = b.add_changelog_entry(hs(p[0]), hs(p[1]), p[2].parse::<u32>().unwrap());
        } else if let Some(r) = t.strip_prefix("clt=") {
            // `clt=<name>:<text>:<kind>:<secs>:<nanos>`: the time as a u32 / SystemTime / DateTime<Utc> / DateTime<FixedOffset>
            let p: Vec<&str> = r.split(':').collect();
            let (name, text, secs, nanos) = (hs(p[0]), hs(p[1]), p[3].parse::<i64>().unwrap(), p[4].parse::<u32>().unwrap());
            b = match typed_instant(p[2], secs, nanos) {
                Some(TypedInstant::U32(n)) => b.add_changelog_entry(name, text, n),
                Some(TypedInstant::Sys(t)) => b.add_changelog_entry(name, text, t),
                Some(TypedInstant::Utc(t)) => b.add_changelog_entry(name, text, t),
                Some(TypedInstant::Fix(t)) => b.add_changelog_entry(name, text, t),
                None => b,
            };
        }
    }
    if sd_last {
        if let Some(x) = get("sd") { b = apply_source_date(b, x.parse::<u32>().unwrap(), get("sdk").unwrap_or("u32")); }
        // `sdneg=<s>`: a source date s seconds BEFORE 1970 (a date-time no Timestamp can hold): today the setter panics (known
        // finding C17); should it ever be accepted instead, nothing in the package may be later than that date (seed C11-10)
        if let Some(x) = get("sdneg") { b = b.source_date(chrono::DateTime::from_timestamp(-(x.parse::<i64>().unwrap()), 0).unwrap()); }
        if let Some(x) = get("sdt") { b = apply_typed_source_date(b, x); }
    }
    Ok(b)
}

/// an instant as one of the argument types the timestamp setters accept
pub enum TypedInstant {
    U32(u32),
    Sys(std::time::SystemTime),
    Utc(chrono::DateTime<chrono::Utc>),
    Fix(chrono::DateTime<chrono::FixedOffset>),
}

/// `None`: the value cannot be constructed as that type (the request is then a no-op, as in the driver)
pub fn typed_instant(kind: &str, secs: i64, nanos: u32) -> Option<TypedInstant> {
    use chrono::TimeZone;
    match kind {
        "u32" => if nanos == 0 { u32::try_from(secs).ok().map(TypedInstant::U32) } else { None },
        "sys" => {
            use std::time::{Duration, UNIX_EPOCH};
            if secs >= 0 { UNIX_EPOCH.checked_add(Duration::new(secs as u64, nanos)) }
            else if nanos == 0 { UNIX_EPOCH.checked_sub(Duration::new(secs.unsigned_abs(), 0)) }
            else { UNIX_EPOCH.checked_sub(Duration::new(secs.unsigned_abs() - 1, 1_000_000_000 - nanos)) }
        }.map(TypedInstant::Sys),
        "utc" => chrono::DateTime::from_timestamp(secs, nanos).map(TypedInstant::Utc),
        "fix" => chrono::DateTime::from_timestamp(secs, nanos)
            .map(|d| chrono::FixedOffset::east_opt(20700).unwrap().from_utc_datetime(&d.naive_utc())).map(TypedInstant::Fix),
        _ => None,
    }
}

/// `sdt=<kind>:<secs>:<nanos>`
pub fn apply_typed_source_date(b: rpm::PackageBuilder, x: &str) -> rpm::PackageBuilder {
    let p: Vec<&str> = x.split(':').collect();
    match typed_instant(p[0], p[1].parse().unwrap(), p[2].parse().unwrap()) {
        Some(TypedInstant::U32(n)) => b.source_date(n),
        Some(TypedInstant::Sys(t)) => b.source_date(t),
        Some(TypedInstant::Utc(t)) => b.source_date(t),
        Some(TypedInstant::Fix(t)) => b.source_date(t),
        None => b,
    }
}

/// `c=<none|gzip:L|…>`: `compression(CompressionWithLevel)`; `c=<type>:d`: `compression(CompressionType::<type>)`
pub fn apply_compression(b: rpm::PackageBuilder, x: &str) -> rpm::PackageBuilder {
    let (ty, lvl) = x.split_once(':').unwrap_or((x, "0"));
    if lvl == "d" {
        // the level comes from `From<CompressionType> for CompressionWithLevel`
        return b.compression(ty.parse::<rpm::CompressionType>().expect("bad compression type"));
    }
    let c = match ty {
        "none" => rpm::CompressionWithLevel::None,
        "gzip" => rpm::CompressionWithLevel::Gzip(lvl.parse().unwrap()),
        "zstd" => rpm::CompressionWithLevel::Zstd(lvl.parse().unwrap()),
        "xz" => rpm::CompressionWithLevel::Xz(lvl.parse().unwrap()),
        "bzip2" => rpm::CompressionWithLevel::Bzip2(lvl.parse().unwrap()),
        _ => panic!("bad compression"),
    };
    b.compression(c)
}

/// the instant `secs + nanos / 10^9` seconds after the epoch (`secs` is the floor, also before 1970) as a file time
pub fn file_time(secs: i64, nanos: u32) -> std::time::SystemTime {
    use std::time::{Duration, UNIX_EPOCH};
    if secs >= 0 {
        UNIX_EPOCH + Duration::new(secs as u64, nanos)
    } else if nanos == 0 {
        UNIX_EPOCH - Duration::new(secs.unsigned_abs(), 0)
    } else {
        UNIX_EPOCH - Duration::new(secs.unsigned_abs() - 1, 1_000_000_000 - nanos)
    }
}

/// the `is_*` setters a flags field names, in call order (names without the `is_` prefix)
pub fn flag_setter_names(field: &str) -> Vec<String> {
    if let Ok(bits) = field.parse::<u32>() {
        // legacy wire encoding (a convention of this protocol, not rpm's constants: the Lean driver decodes it the same
        // way and computes the resulting flag word from the table scraped from types.rs)
        [(2u32, "doc"), (1, "config"), (16, "config_noreplace"), (64, "ghost"), (128, "license"), (256, "readme")]
            .iter().filter(|(b, _)| bits & b != 0).map(|(_, n)| n.to_string()).collect()
    } else if field == "-" {
        vec![]
    } else {
        field.split('+').map(|x| x.to_string()).collect()
    }
}

pub fn apply_flag_setter(o: rpm::FileOptionsBuilder, name: &str) -> rpm::FileOptionsBuilder {
    match name {
        "doc" => o.is_doc(),
        "config" => o.is_config(),
        "config_noreplace" => o.is_config_noreplace(),
        "ghost" => o.is_ghost(),
        "license" => o.is_license(),
        "readme" => o.is_readme(),
        _ => panic!("unknown flag setter {}", name),
    }
}

/// the codec of the payload: the LAST `c=` token (the last `compression(..)` call wins), else the library's default
pub fn comp_kind<'a>(tokens: &[&'a str]) -> &'a str {
    tokens.iter().rev().find_map(|t| t.strip_prefix("c=")).map(|c| c.split(':').next().unwrap()).unwrap_or(default_comp_kind())
}

/// the codec `CompressionWithLevel::default()` selects in this build of rpm-rs
pub fn default_comp_kind() -> &'static str {
    match rpm::CompressionWithLevel::default() {
        rpm::CompressionWithLevel::None => "none",
        rpm::CompressionWithLevel::Gzip(_) => "gzip",
        rpm::CompressionWithLevel::Zstd(_) => "zstd",
        rpm::CompressionWithLevel::Xz(_) => "xz",
        rpm::CompressionWithLevel::Bzip2(_) => "bzip2",
    }
}

pub fn cleanup() {
    let _ = std::fs::remove_dir_all(scratch_dir());
    rpm::verif_hooks::set_now(None);
    rpm::verif_hooks::set_large_file_threshold(None);
}

/// decompress a payload with the codec crates directly (not through rpm-rs)
pub fn decompress(kind: &str, data: &[u8]) -> Option<Vec<u8>> {
    use std::io::Read;
    let mut out = Vec::new();
    match kind {
        "none" => { out = data.to_vec(); }
        "gzip" => { flate2::read::GzDecoder::new(data).read_to_end(&mut out).ok()?; }
        "zstd" => { zstd::stream::Decoder::new(data).ok()?.read_to_end(&mut out).ok()?; }
        "xz" => { liblzma::read::XzDecoder::new(data).read_to_end(&mut out).ok()?; }
        "bzip2" => { bzip2::read::BzDecoder::new(data).read_to_end(&mut out).ok()?; }
        _ => return None,
    }
    Some(out)
}

pub fn sha256_hex(b: &[u8]) -> String {
    use sha2::Digest;
    hex::encode(sha2::Sha256::digest(b))
}

pub fn raw_str(h: &rpm::Header<rpm::IndexTag>, tag: rpm::IndexTag) -> String {
    match h.get_entry_data_as_string(tag) { Ok(v) => format!("ok:{}", hx(v.as_bytes())), Err(_) => "err".into() }
}

/// the verify scriptlet has no accessor: read it through the public raw getters
pub fn verify_script_dump(m: &rpm::PackageMetadata) -> String {
    let h = &m.header;
    let script = raw_str(h, rpm::IndexTag::RPMTAG_VERIFYSCRIPT);
    let flags = match h.get_entry_data_as_u32(rpm::IndexTag::RPMTAG_VERIFYSCRIPTFLAGS) { Ok(v) => v.to_string(), Err(_) => "~".into() };
    let prog = match h.get_entry_data_as_string_array(rpm::IndexTag::RPMTAG_VERIFYSCRIPTPROG) {
        Ok(v) => format!("[{}]", v.iter().map(|x| hx(x.as_bytes())).collect::<Vec<_>>().join("/")),
        Err(_) => "~".into(),
    };
    format!("verify={},{},{}", script, flags, prog)
}

/// `build()`, or — `sgn=bs` — `build_and_sign(signer)`, or — `sgn=b+s` — `build()` then `Package::sign(&signer)`
/// (Ed25519 test key; the main header, the lead and the payload must not depend on which of the three is used)
pub fn build_pkg(b: rpm::PackageBuilder, tokens: &[&str]) -> Result<rpm::Package, rpm::Error> {
    let sgn = tokens.iter().find_map(|t| t.strip_prefix("sgn="));
    let signer = || -> Result<rpm::signature::pgp::Signer, rpm::Error> {
        let key = std::fs::read("/repo/tests/assets/signing_keys/secret_ed25519.asc")?;
        rpm::signature::pgp::Signer::load_from_asc_bytes(&key)
    };
    match sgn {
        Some("bs") => b.build_and_sign(signer()?),
        Some("b+s") => {
            let mut p = b.build()?;
            p.sign(&signer()?)?;
            Ok(p)
        }
        _ => b.build(),
    }
}

/// the part of the `build` observation in front of ` || `: digests of payload and (independently decompressed) archive, FNV of
/// lead / signature header (`signed` for a signed package: the signature bytes are not predicted) / main header, re-parse equality
pub fn observe_head(pkg: &rpm::Package, tokens: &[&str]) -> Result<(String, rpm::Package), rpm::Error> {
    let mut bytes = Vec::new();
    pkg.write(&mut bytes)?;
    let p2 = rpm::Package::parse(&mut &bytes[..])?;
    let o = p2.metadata.get_package_segment_offsets();
    let (s, h, pl) = (o.signature_header as usize, o.header as usize, o.payload as usize);
    let arch = decompress(comp_kind(tokens), &bytes[pl..]);
    let signed = tokens.iter().any(|t| t.starts_with("sgn="));
    let head = format!(
        "ok paysha={} archsha={} lead={:016x} sig={} hdr={:016x} hlen={} same={}",
        sha256_hex(&bytes[pl..]),
        arch.as_ref().map(|a| sha256_hex(a)).unwrap_or("undecodable".into()),
        fnv(&bytes[..s]),
        if signed { "signed".to_string() } else { format!("{:016x}", fnv(&bytes[s..h])) },
        fnv(&bytes[h..pl]), pl - h,
        p2.metadata == pkg.metadata && p2.content == pkg.content,
    );
    Ok((head, p2))
}

/// `build …` observation
pub fn observe_build(tokens: &[&str]) -> String {
    let r = (|| -> Result<String, rpm::Error> {
        let b = builder_from(tokens)?;
        let pkg = build_pkg(b, tokens)?;
        let (head, p2) = observe_head(&pkg, tokens)?;
        Ok(format!("{} || {} {}", head, crate::c05::dump(&p2.metadata), verify_script_dump(&p2.metadata)))
    })();
    cleanup();
    match r { Ok(s) => s, Err(_) => "err".into() }
}

pub fn eval(op: &str, a: &[&str]) -> Option<String> {
    match op {
        "build" => Some(observe_build(a)),
        _ => None,
    }
}

/// `source_date(t)` accepts anything that converts into a `Timestamp`; `sdk=` chooses the argument type for the SAME instant:
/// `u32` (default), `st` (SystemTime), `dt<±HHMM>` (chrono DateTime with that fixed offset). The package must not depend on it
/// (seed C11-7: a DateTime with a non-zero offset shifted the source date).
pub fn apply_source_date(b: rpm::PackageBuilder, secs: u32, kind: &str) -> rpm::PackageBuilder {
    use chrono::TimeZone;
    match kind {
        "st" => b.source_date(std::time::UNIX_EPOCH + std::time::Duration::from_secs(secs as u64)),
        k if k.starts_with("dt") => {
            let off = &k[2..];
            let sign = if off.starts_with('-') { -1 } else { 1 };
            let digits: i32 = off.trim_start_matches(['+', '-']).parse().unwrap_or(0);
            let east = sign * ((digits / 100) * 3600 + (digits % 100) * 60);
            let tz = chrono::FixedOffset::east_opt(east).unwrap_or(chrono::FixedOffset::east_opt(0).unwrap());
            b.source_date(tz.timestamp_opt(secs as i64, 0).unwrap())
        }
        _ => b.source_date(secs),
    }
}
