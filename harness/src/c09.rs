//! C09: emitted packages satisfy rpm's structural rules.
//!
//! `valid <cfg tokens…> [sign=<R|E|C>] [then=<ops>]` — same configuration tokens as `build` (bld.rs).
//!   `sign=K`  : `build_and_sign` with key K instead of `build` (R = rsa4096, E = ed25519, C = ecdsa p256)
//!   `then=…`  : operations applied afterwards, one character each:
//!               `c` clear_signatures, `R`/`E`/`C` sign with that key, `w` write + re-parse
//! `validfile @path [then=…]` — the same for an existing package file (the repo's rpm-built assets).
//! `validhand09 <kind> [then=…]` — the same for C10's hand-made start packages (`latin1`, `noncanon`, `swapped`, `extratag`: the
//!   built2 package with a main header edited by hand) and for `gap` (slack bytes BETWEEN two data items of the store, the region
//!   trailer still last): `ok start=<hex of the start package> pkg=<…> arch=<…>`; the driver judges the start first.
//!
//! Observation: `ok comp=<name> pkg=<hex of Package::write> arch=<hex of the payload decompressed with the
//! codec crates directly>` | `err`. The driver parses `pkg` with the Lean parser and runs the validator
//! (Spec/RpmValid.lean) on it; nothing else is compared.
use crate::bld;
use crate::common::*;

fn key_path(k: char) -> Option<&'static str> {
    match k {
        'R' => Some("/repo/tests/assets/signing_keys/secret_rsa4096.asc"),
        'E' => Some("/repo/tests/assets/signing_keys/secret_ed25519.asc"),
        'C' => Some("/repo/tests/assets/signing_keys/secret_ecdsa_p256.asc"),
        _ => None,
    }
}

fn signer(k: char) -> Result<rpm::signature::pgp::Signer, rpm::Error> {
    let p = key_path(k).expect("key letter");
    let raw = std::fs::read(p)?;
    rpm::signature::pgp::Signer::load_from_asc_bytes(&raw)
}

fn apply_ops(mut pkg: rpm::Package, ops: &str) -> Result<rpm::Package, rpm::Error> {
    for op in ops.chars() {
        match op {
            'c' => pkg.clear_signatures()?,
            'R' | 'E' | 'C' => pkg.sign_with_timestamp(signer(op)?, 1_600_000_000u32)?,
            'w' => {
                let mut bytes = Vec::new();
                pkg.write(&mut bytes)?;
                pkg = rpm::Package::parse(&mut &bytes[..])?;
            }
            _ => panic!("bad op"),
        }
    }
    Ok(pkg)
}

fn observe(pkg: &rpm::Package) -> Result<String, rpm::Error> {
    let mut bytes = Vec::new();
    pkg.write(&mut bytes)?;
    // the compressor the header names (raw getter; absent = gzip, rpm's default)
    let comp = match pkg.metadata.header.get_entry_data_as_string(rpm::IndexTag::RPMTAG_PAYLOADCOMPRESSOR) {
        Ok(s) => s.to_string(),
        Err(_) => "gzip".to_string(),
    };
    let kind = match comp.as_str() { "gzip" | "zstd" | "xz" | "bzip2" => comp.as_str(), "lzma" => "xz", _ => "none" };
    let arch = bld::decompress(kind, &pkg.content);
    // when the named codec cannot decode the payload, hand the driver the raw payload: the validator
    // then fails on the compressor / cpio rules
    let arch = arch.unwrap_or_else(|| pkg.content.clone());
    Ok(format!("ok pkg={} arch={}", hx(&bytes), hx(&arch)))
}

/// A signer behind the public `Signing` trait whose blobs have a chosen total length: the genuine Ed25519 signature packet
/// followed by well-framed private-use packets (tag 60) — `parse_signature` takes the first signature packet, so the package
/// still verifies. What the signer emits around a signature of ANY length must be structurally valid (seed C09-9: a
/// reserved-space entry sized `4128 − used`, with count 0 at the one exact fit).
#[derive(Debug)]
struct PadSigner { inner: rpm::signature::pgp::Signer, total: usize }
impl rpm::signature::Signing for PadSigner {
    type Signature = Vec<u8>;
    fn sign(&self, data: impl std::io::Read, t: rpm::Timestamp) -> Result<Vec<u8>, rpm::Error> {
        let mut sig = self.inner.sign(data, t)?;
        let mut pad = self.total.saturating_sub(sig.len());
        if pad == 1 { pad = 0; }
        while pad > 0 {
            let mut chunk = pad.min(150);
            if pad - chunk == 1 { chunk -= 1; }
            sig.push(0xfc);
            sig.push((chunk - 2) as u8);
            sig.extend(std::iter::repeat(0u8).take(chunk - 2));
            pad -= chunk;
        }
        Ok(sig)
    }
    fn algorithm(&self) -> rpm::signature::AlgorithmType { self.inner.algorithm() }
}

thread_local! { static PAD_BASE: std::cell::RefCell<Option<Vec<u8>>> = const { std::cell::RefCell::new(None) }; }

/// `validpad L`: a minimal built package (cached), signed with a blob of total length L, written out
fn validpad(total: usize) -> Result<String, rpm::Error> {
    let base = PAD_BASE.with(|c| -> Result<Vec<u8>, rpm::Error> {
        if c.borrow().is_none() {
            rpm::verif_hooks::set_now(Some(1_700_000_000));
            let pkg = rpm::PackageBuilder::new("pad", "1", "MIT", "noarch", "s").compression(rpm::CompressionType::None).source_date(1_600_000_000u32).build()?;
            let mut b = Vec::new();
            pkg.write(&mut b)?;
            *c.borrow_mut() = Some(b);
        }
        Ok(c.borrow().clone().unwrap())
    })?;
    let mut pkg = rpm::Package::parse(&mut &base[..])?;
    pkg.sign_with_timestamp(PadSigner { inner: signer('E')?, total }, 1_600_000_000u32)?;
    observe(&pkg)
}

fn get<'a>(tokens: &[&'a str], k: &str) -> Option<&'a str> {
    tokens.iter().find_map(|t| t.strip_prefix(k).and_then(|r| r.strip_prefix('=')))
}

pub fn eval(op: &str, a: &[&str]) -> Option<String> {
    match op {
        "valid" => {
            let r = (|| -> Result<String, rpm::Error> {
                let b = bld::builder_from(a)?;
                let pkg = match get(a, "sign") {
                    Some(k) => b.build_and_sign(signer(k.chars().next().unwrap())?)?,
                    None => b.build()?,
                };
                let pkg = apply_ops(pkg, get(a, "then").unwrap_or(""))?;
                observe(&pkg)
            })();
            bld::cleanup();
            Some(match r { Ok(s) => s, Err(_) => "err".into() })
        }
        "validpad" => Some(match a.first().and_then(|x| x.parse().ok()).map(validpad) { Some(Ok(s)) => s, _ => "err".into() }),
        "validhand09" => {
            let r = (|| -> Option<String> {
                let start = hand_start(a[0])?;
                let pkg = rpm::Package::parse(&mut &start[..]).ok()?;
                let pkg = apply_ops(pkg, get(a, "then").unwrap_or("")).ok()?;
                let o = observe(&pkg).ok()?;
                Some(format!("ok start={} {}", hx(&start), &o[3..]))
            })();
            Some(r.unwrap_or_else(|| "err".into()))
        }
        "validfile" => {
            let r = (|| -> Result<String, rpm::Error> {
                let bytes = arg_bytes(a[0]);
                let pkg = rpm::Package::parse(&mut &bytes[..])?;
                let pkg = apply_ops(pkg, get(a, "then").unwrap_or(""))?;
                observe(&pkg)
            })();
            Some(match r { Ok(s) => s, Err(_) => "err".into() })
        }
        _ => None,
    }
}

/// a hand-made start package of kind `gap`: C10's `latin1` variant of its built2 package (a non-UTF-8 byte in the summary, header
/// digest re-computed) with, in addition, four zero bytes inserted in front of the data of the LAST non-region entry in store order (every later offset — only the region entry's — moves up by 4, so alignment is kept): a layout
/// rpm accepts (data in index order, no overlap, the region trailer still the last 16 bytes) that `from_entries` never produces
fn gap_start() -> Option<Vec<u8>> {
    let base = crate::c10::variant_start("latin1")?;
    let (a, b, mut g) = crate::c10::split_main_header(&base)?;
    let region = g.entries.iter().position(|e| e.tag == 63)?;
    let last = (0..g.entries.len()).filter(|i| *i != region).max_by_key(|i| g.entries[*i].off)?;
    let at = g.entries[last].off as usize;
    for _ in 0..4 { g.store.insert(at, 0); }
    g.entries[last].off += 4;
    g.entries[region].off += 4;
    use sha2::Digest;
    let old_digest = hex::encode(sha2::Sha256::digest(&base[a..b]));
    let new_header = g.bytes();
    let new_digest = hex::encode(sha2::Sha256::digest(&new_header));
    let pos = base[..a].windows(old_digest.len()).position(|w| w == old_digest.as_bytes())?;
    let mut out = base[..a].to_vec();
    out[pos..pos + new_digest.len()].copy_from_slice(new_digest.as_bytes());
    out.extend(new_header);
    out.extend_from_slice(&base[b..]);
    Some(out)
}

fn hand_start(kind: &str) -> Option<Vec<u8>> {
    if kind == "gap" { gap_start() } else if crate::c10::VARIANT_KINDS.contains(&kind) { crate::c10::variant_start(kind) } else { None }
}

const HAND_KINDS: [&str; 5] = ["latin1", "noncanon", "swapped", "extratag", "gap"];

fn asset_packages() -> Vec<String> {
    let mut v = Vec::new();
    for d in ["/repo/test_assets", "/repo/test_assets/fixture_packages"] {
        if let Ok(rd) = std::fs::read_dir(d) {
            for e in rd.flatten() {
                let p = e.path();
                if p.extension().map(|x| x == "rpm").unwrap_or(false) {
                    v.push(p.to_string_lossy().to_string());
                }
            }
        }
    }
    v.sort();
    v
}

fn corpus_requests() -> Vec<String> {
    let mut v: Vec<_> = std::fs::read_dir("corpus/C09")
        .map(|d| d.filter_map(|e| e.ok()).map(|e| e.path()).filter(|p| p.extension().map(|x| x == "case").unwrap_or(false)).collect())
        .unwrap_or_default();
    v.sort();
    v.iter()
        .filter_map(|p| std::fs::read_to_string(p).ok())
        .flat_map(|s| s.lines().map(|l| l.split(" => ").next().unwrap_or("").trim().to_string()).filter(|l| !l.is_empty() && !l.starts_with('#')).collect::<Vec<_>>())
        .collect()
}

/// destinations whose text is not in normal form (each names the file /a/b or /b)
const ODD_DESTS: &[&str] = &["//b", "/a//b", "/a/./b", "/a/b/", "./a//b", ".//b", "/a/b/.", "//a///b//", "/./b", "./a/./b"];

/// rpm-rs without bzip2 support: every compression type must either be refused or produce a valid package
/// whose payload really is what the header names (request token `feat=nobz` tells the driver's model that
/// bzip2 is refused)
fn gen_nobz(ctx: &mut Ctx) {
    let (si, sn) = ctx.shard;
    let sizes = [0usize, 1, 3, 4, 100, 1000];
    let comps = ["none", "gzip:6", "gzip:1", "zstd:3", "zstd:19", "xz:6", "xz:0", "bzip2:9", "bzip2:1", "bzip2:5"];
    let n = ctx.q(60u64, 300);
    for i in 0..n {
        let cfg = crate::c06::gen_cfg(&mut ctx.rng, &sizes);
        // replace the compression token by the i-th of the list
        let mut toks: Vec<String> = cfg.split(' ').filter(|t| !t.starts_with("c=")).map(|t| t.to_string()).collect();
        toks.push(format!("c={}", comps[(i % comps.len() as u64) as usize]));
        toks.push("feat=nobz".into());
        if i % 7 == 3 { toks.push("sign=E".into()); }
        if i % sn == si {
            ctx.req(&format!("valid {}", toks.join(" ")));
        }
    }
}

fn gen_content(ctx: &mut Ctx) {
    let (si, sn) = ctx.shard;
    fn h(s: &str) -> String { hx(s.as_bytes()) }
    let versions = ["1.0", "1.0~rc1", "1.0^git1", "2~a^b"];
    // (kind, name, flags, version)
    let deps: [&[(&str, &str, u32, &str)]; 10] = [
        &[],
        &[("req", "libfoo", 12, "2.0~beta")],
        &[("prov", "virt", 8, "3^post1")],
        &[("obs", "old", 2, "1~~")],
        &[("req", "(a or b)", 0, "")],
        &[("rec", "(a if b)", 0, "")],
        &[("conf", "(x and y)", 0, "")],
        &[("sup", "(k or (l and m))", 0, ""), ("enh", "e", 8, "1^")],
        // "(" not in first place, an empty version, a provide named like a rich dependency (rpm looks at provides' VERSIONS only)
        &[("req", "a(b)", 0, ""), ("prov", "(p or q)", 0, "")],
        &[("sug", "s", 10, "1.0~"), ("req", "(a unless b)", 0, "")],
    ];
    let scripts = ["", "sc=prein:65:~:PROG1", "sc=postun:65:1:PROG3", "sc=verify:65:~:PROG2 sc=pretrans:65:~:PROG1", "sc=posttrans:65:~:-", "sc=preuntrans:65:2:PROG2"];
    let progs = [("PROG1", vec!["/bin/sh"]), ("PROG2", vec!["/bin/sh", "-e"]), ("PROG3", vec!["/usr/bin/lua", "-x", "a b"])];
    let comps = ["none", "gzip:6", "zstd:3", "xz:1", "bzip2:9"];
    let mut k = 0u64;
    for (vi, v) in versions.iter().enumerate() {
        for (di, dl) in deps.iter().enumerate() {
            for (sci, sc) in scripts.iter().enumerate() {
                // quick: a third of the grid (every combination of two axes still occurs); thorough: all of it
                if !ctx.thorough && (vi + di + sci) % 3 != 0 && !(vi == 0 || di == 0 || sci == 0) { continue; }
                for own in [false, true] {
                    k += 1;
                    if k % sn != si { continue; }
                    let mut t: Vec<String> = vec![format!("n={}", h("cf")), format!("v={}", h(v)), format!("l={}", h("MIT")), format!("a={}", h("noarch")),
                        format!("s={}", h("content features")), "now=1700000000".into(), format!("c={}", comps[(k % 5) as usize])];
                    if k % 3 == 0 { t.push(format!("r={}", h("0.1~pre"))); }
                    if k % 4 == 1 { t.push("f=2f6f70742f78:33188:726f6f74:726f6f74:0:~:-:1600000000:4:5:~".into()); }
                    for (kind, name, flags, ver) in dl.iter() {
                        t.push(format!("dp={}:{}:{}:{}", kind, h(name), flags, h(ver)));
                    }
                    let mut sct = sc.to_string();
                    for (pn, words) in progs.iter() {
                        sct = sct.replace(pn, &words.iter().map(|w| h(w)).collect::<Vec<_>>().join(","));
                    }
                    if !sct.is_empty() { t.extend(sct.split(' ').map(|x| x.to_string())); }
                    if own {
                        // what rpmbuild would add: LESS | EQUAL | RPMLIB
                        let uses_tilde = v.contains('~') || dl.iter().any(|d| d.3.contains('~'));
                        let uses_caret = v.contains('^') || dl.iter().any(|d| d.3.contains('^'));
                        let rich = dl.iter().any(|d| d.0 != "prov" && d.0 != "obs" && d.1.starts_with('('));
                        let args = sc.contains("PROG2") || sc.contains("PROG3");
                        if !(uses_tilde || uses_caret || rich || args) { continue; }
                        let fl = (1u32 << 24) | 8 | 2;
                        // every other `own` case declares all but the last needed feature: still a violation
                        let mut need: Vec<(&str, &str)> = Vec::new();
                        if uses_tilde { need.push(("TildeInVersions", "4.10.0-1")); }
                        if uses_caret { need.push(("CaretInVersions", "4.15.0-1")); }
                        if rich { need.push(("RichDependencies", "4.12.0-1")); }
                        if args { need.push(("ScriptletInterpreterArgs", "4.0.3-1")); }
                        if k % 4 == 3 && need.len() > 1 { need.pop(); }
                        for (f, ver) in need { t.push(format!("dp=req:{}:{}:{}", h(&format!("rpmlib({})", f)), fl, h(ver))); }
                    }
                    match k % 11 { 3 => t.push("sign=E".into()), 5 => t.push("then=cE".into()), 7 => t.push("sign=R then=wc".into()), _ => {} }
                    ctx.req(&format!("valid {}", t.join(" ")));
                }
            }
        }
    }
}

pub fn gen(ctx: &mut Ctx) {
    if ctx.variant == "nobz" {
        return gen_nobz(ctx);
    }
    let (si, sn) = ctx.shard;
    if si == 0 {
        // past witnesses first
        for r in corpus_requests() {
            ctx.req(&r);
        }
        // every odd destination, standard and large-file form
        for d in ODD_DESTS {
            for lf in ["", " lf=0"] {
                ctx.req(&format!("valid n=78 v=31 l=- a=78 s=- now=1700000000 c=gzip:6 f={}:33188:726f6f74:726f6f74:0:~:-:0:3:5:~ f=2f7a:33261:726f6f74:726f6f74:0:~:-:0:4:2:~{}", hx(d.as_bytes()), lf));
            }
        }
    }
    // 1. the repo's rpm-built packages, as they are and after sign / clear histories
    let histories = ["", "w", "c", "R", "E", "cw", "Rc", "RE", "EwC", "Rwcw"];
    let mut k = 0u64;
    for p in asset_packages() {
        for (hi, h) in histories.iter().enumerate() {
            if !ctx.thorough && hi >= 4 && (hi as u64 + k) % 3 != 0 { continue; }
            k += 1;
            if k % sn != si { continue; }
            let big = std::fs::metadata(&p).map(|m| m.len() > 100_000).unwrap_or(false);
            if big && hi >= 2 && !ctx.thorough { continue; }
            if h.is_empty() { ctx.req(&format!("validfile @{}", p)); } else { ctx.req(&format!("validfile @{} then={}", p, h)); }
        }
    }
    // 1a. hand-made start packages (C10's four and `gap`), as they are and after sign / clear histories
    for (ki, kind) in HAND_KINDS.iter().enumerate() {
        for (hi, h) in ["", "w", "c", "E", "Ec", "cR", "CwE", "Rwcw"].iter().enumerate() {
            if (ki * 8 + hi) as u64 % sn != si { continue; }
            if h.is_empty() { ctx.req(&format!("validhand09 {}", kind)); } else { ctx.req(&format!("validhand09 {} then={}", kind, h)); }
        }
    }
    // 1c. the four rpmlib() features rpmbuild derives from the CONTENT of a package: versions and dependency versions with '~' / '^',
    //     rich dependencies, scriptlet interpreters with arguments — alone, combined, and with the matching requirement written by
    //     the caller (then nothing is missing); a few of them signed / cleared afterwards
    gen_content(ctx);
    // 1b. signature blobs of every total length from the bare Ed25519 signature up to beyond a 4 KiB reserved area
    {
        let step = if ctx.thorough { 1 } else { 1 };
        let mut l = 100u64;
        while l <= 4400 {
            if l % sn == si { ctx.req(&format!("validpad {}", l)); }
            l += step;
        }
    }
    // 2. builder configurations (all compression types, scriptlets incl. empty interpreter lists,
    //    capabilities, 0..6 files, odd destinations), some in large-file mode, signed / cleared variants
    let n = ctx.q(1_200u64, 12_000) / sn;
    let sizes = [0usize, 1, 2, 3, 4, 5, 7, 13, 100, 1000, 4096];
    for i in 0..n {
        let mut cfg = crate::c06::gen_cfg(&mut ctx.rng, &sizes);
        if ctx.rng.chance(1, 5) { cfg.push_str(" lf=0"); }
        else if ctx.rng.chance(1, 10) { cfg.push_str(&format!(" lf={}", ctx.rng.pick(&[1u64, 5, 100, 5000]))); }
        match ctx.rng.below(if i % 4 == 0 { 4 } else { 12 }) {
            0 => cfg.push_str(&format!(" sign={}", ctx.rng.pick(&['R', 'E', 'C']))),
            1 => cfg.push_str(&format!(" then={}", ctx.rng.pick(&["c", "w", "E", "Ec", "cE", "wEw", "ER", "Cwc", "R"]))),
            2 => cfg.push_str(&format!(" sign={} then={}", ctx.rng.pick(&['R', 'E', 'C']), ctx.rng.pick(&["c", "w", "E", "cw", "wC"]))),
            _ => {}
        }
        ctx.req(&format!("valid {}", cfg));
    }
}
