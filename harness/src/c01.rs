//! C01: parse then write reproduces the package byte for byte (and is a fixpoint).
use crate::common::*;
use crate::pkggen::*;

/// the input through a temporary file and `PackageMetadata::open`: equal to what `parse` returned for the bytes?
fn opened_equals(bytes: &[u8], m: &rpm::PackageMetadata) -> bool {
    static N: std::sync::atomic::AtomicU64 = std::sync::atomic::AtomicU64::new(0);
    let path = std::env::temp_dir().join(format!("rpmverif-c01-{}-{}.rpm", std::process::id(), N.fetch_add(1, std::sync::atomic::Ordering::Relaxed)));
    if std::fs::write(&path, bytes).is_err() {
        return false;
    }
    let r = rpm::PackageMetadata::open(&path);
    let _ = std::fs::remove_file(&path);
    matches!(r, Ok(ref o) if o == m)
}

/// observation for a package / metadata round trip
fn roundtrip(bytes: &[u8], meta_only: bool) -> String {
    if meta_only {
        let m = match rpm::PackageMetadata::parse(&mut &bytes[..]) {
            Ok(m) => m,
            Err(_) => return "err".into(),
        };
        let mut w = Vec::new();
        if m.write(&mut w).is_err() {
            return "err-write".into();
        }
        let (re, rw) = match rpm::PackageMetadata::parse(&mut &w[..]) {
            Ok(m2) => {
                let mut w2 = Vec::new();
                let _ = m2.write(&mut w2);
                // `PackageMetadata::open` (file → BufReader → parse) on the same input must give the same value as `parse`
                (m2 == m && opened_equals(bytes, &m), w2 == w)
            }
            Err(_) => (false, false),
        };
        format!("ok w={:016x} len={} re={} rw={}", fnv(&w), w.len(), re, rw)
    } else {
        let p = match rpm::Package::parse(&mut &bytes[..]) {
            Ok(p) => p,
            Err(_) => return "err".into(),
        };
        let mut w = Vec::new();
        if p.write(&mut w).is_err() {
            return "err-write".into();
        }
        let (re, rw) = match rpm::Package::parse(&mut &w[..]) {
            Ok(p2) => {
                let mut w2 = Vec::new();
                let _ = p2.write(&mut w2);
                (p2.metadata == p.metadata && p2.content == p.content, w2 == w)
            }
            Err(_) => (false, false),
        };
        format!("ok w={:016x} len={} re={} rw={}", fnv(&w), w.len(), re, rw)
    }
}

/// round trip of a value changed in memory: the signature header cleared (`Header::clear`) or replaced by
/// `Header::new_empty()` before writing
fn roundtrip_variant(variant: &str, bytes: &[u8]) -> String {
    let mut p = match rpm::Package::parse(&mut &bytes[..]) {
        Ok(p) => p,
        Err(_) => return "err".into(),
    };
    match variant {
        "clear" => p.metadata.signature.clear(),
        _ => p.metadata.signature = rpm::Header::<rpm::IndexSignatureTag>::new_empty(),
    }
    let mut w = Vec::new();
    if p.write(&mut w).is_err() {
        return "err-write".into();
    }
    let (re, rw) = match rpm::Package::parse(&mut &w[..]) {
        Ok(p2) => {
            let mut w2 = Vec::new();
            let _ = p2.write(&mut w2);
            (p2.metadata == p.metadata && p2.content == p.content, w2 == w)
        }
        Err(_) => (false, false),
    };
    format!("ok w={:016x} len={} re={} rw={}", fnv(&w), w.len(), re, rw)
}

/// `len:fnv(written):content-len:fnv(content)` of a parsed package — what a source kind delivered
fn summary(p: &rpm::Package) -> String {
    let mut w = Vec::new();
    match p.write(&mut w) {
        Ok(()) => format!("{}:{:016x}:{}:{:016x}", w.len(), fnv(&w), p.content.len(), fnv(&p.content)),
        Err(_) => "werr".into(),
    }
}
fn summ(r: &Result<rpm::Package, rpm::Error>) -> String {
    match r {
        Ok(p) => summary(p),
        Err(_) => "err".into(),
    }
}

/// `openrt01 BYTES`: the four entry points of the read side on the same bytes — `Package::parse` on a slice (`s=`), on an
/// `io::Cursor` (`c=`), `Package::open` on a file holding the bytes (`o=`, `&Path` argument: std's default-capacity `BufReader<File>`;
/// `os=` the same file opened through a `&str` argument), plus `eq=` (the four VALUES equal: metadata and content);
/// then the sink side: `Package::write_file` of the slice-parsed value to a fresh path (`wf=` length:fnv of the file's bytes as
/// read back with `std::fs::read`), `Package::open` of that file (`wo=`), `weq=` (that value equals the one written).
fn openrt(bytes: &[u8]) -> String {
    static N: std::sync::atomic::AtomicU64 = std::sync::atomic::AtomicU64::new(0);
    let k = N.fetch_add(1, std::sync::atomic::Ordering::Relaxed);
    let base = std::env::temp_dir().join(format!("rpmverif-c01o-{}-{}", std::process::id(), k));
    let (pin, pout) = (base.with_extension("in.rpm"), base.with_extension("out.rpm"));
    if std::fs::write(&pin, bytes).is_err() {
        return "io-setup".into();
    }
    let s = rpm::Package::parse(&mut &bytes[..]);
    let c = rpm::Package::parse(&mut std::io::Cursor::new(bytes.to_vec()));
    let o = rpm::Package::open(pin.as_path());
    let os = rpm::Package::open(pin.to_str().unwrap_or(""));
    let eq = match (&s, &c, &o, &os) {
        (Ok(a), Ok(b), Ok(d), Ok(e)) => [b, d, e].iter().all(|x| x.metadata == a.metadata && x.content == a.content),
        (Err(_), Err(_), Err(_), Err(_)) => true,
        _ => false,
    };
    let mut out = format!("s={} c={} o={} os={} eq={}", summ(&s), summ(&c), summ(&o), summ(&os), eq);
    if let Ok(p) = &s {
        let (wf, wo, weq) = match p.write_file(&pout) {
            Ok(()) => {
                let back = std::fs::read(&pout).unwrap_or_default();
                let re = rpm::Package::open(&pout);
                let weq = matches!(&re, Ok(q) if q.metadata == p.metadata && q.content == p.content);
                (format!("{}:{:016x}", back.len(), fnv(&back)), summ(&re), weq)
            }
            Err(_) => ("err".into(), "-".into(), false),
        };
        out += &format!(" wf={} wo={} weq={}", wf, wo, weq);
    }
    let _ = std::fs::remove_file(&pin);
    let _ = std::fs::remove_file(&pout);
    out
}

/// a structurally parseable package LARGER than std's default `BufReader` capacity (8192): the boundary falls into the signature
/// header, the main header's index, its store, or the payload, depending on `shape`
fn gen_package_big(rng: &mut Rng, shape: u64) -> Vec<u8> {
    let lead = gen_lead(rng, false);
    let mut sig = gen_header_wf(rng);
    let mut hdr = gen_header_wf(rng);
    let n0 = rng.below(40) as usize;
    let mut payload = rng.bytes(n0);
    let big = 8192 - 96 - 200 + rng.below(400) as usize; // a blob that puts the 8 KiB mark near the end of the part it sits in
    match shape % 5 {
        0 => { let b = rng.bytes(big); sig.push(267 + rng.below(3) as u32, 7, &TData::Bytes(b)); }
        1 => { let b = rng.bytes(big); hdr.push(1000 + rng.below(200) as u32, 7, &TData::Bytes(b)); }
        2 => {
            // many small entries: the mark falls into the INDEX of the main header
            for i in 0..(500 + rng.below(40)) {
                let d = TData::U32(vec![i as u32]);
                hdr.push(2000 + i as u32, 4, &d);
            }
        }
        3 => { let k = 8192 + rng.below(9000) as usize; payload = rng.bytes(k); }
        _ => {
            // total length exactly 8191 / 8192 / 8193 / 16384 (payload sized to fit)
            let cur = assemble(&lead, &sig, 0, &hdr, &[]).len();
            let want = *rng.pick(&[8191usize, 8192, 8193, 16384, 16385]);
            payload = rng.bytes(want.saturating_sub(cur));
        }
    }
    assemble(&lead, &sig, 0, &hdr, &payload)
}

pub fn eval(op: &str, a: &[&str]) -> Option<String> {
    match op {
        "openrt01" => Some(openrt(&arg_bytes(a[0]))),
        "pkgrtv" => Some(roundtrip_variant(a[0], &arg_bytes(a[1]))),
        "pkgrt" => Some(roundtrip(&arg_bytes(a[0]), false)),
        "metart" => Some(roundtrip(&arg_bytes(a[0]), true)),
        _ => None,
    }
}

pub fn gen(ctx: &mut Ctx) {
    let (si, sn) = ctx.shard;
    if si == 0 {
        // real-world packages
        for p in asset_paths() {
            ctx.req(&format!("pkgrt @{}", p.display()));
            ctx.req(&format!("metart @{}", p.display()));
            ctx.req(&format!("pkgrtv clear @{}", p.display()));
            ctx.req(&format!("pkgrtv newempty @{}", p.display()));
            ctx.req(&format!("openrt01 @{}", p.display()));
        }
        if let Ok(d) = std::fs::read_dir("/repo/test_assets/fixture_packages") {
            let mut v: Vec<_> = d.filter_map(|e| e.ok()).map(|e| e.path()).collect();
            v.sort();
            for p in v {
                if p.is_file() {
                    ctx.req(&format!("pkgrt @{}", p.display()));
                    ctx.req(&format!("openrt01 @{}", p.display()));
                }
            }
        }
    }
    if si == 0 {
        // the bytes between the signature header and the main header, for every padding length 0..7: zeros, 0xff, the first bytes
        // of a header intro (8e ad e8 01 …: a reader that "finds" the main header early must not skip less), and NO padding at all
        // (the main header directly behind the store: an error when padding is due). Deterministic, since seed C01-6 (tolerant
        // padding) was once reported only by an escalation seed.
        let mut rng = Rng::new(0xC0106);
        for slack in 0..8usize {
            let mut sig = GHeader::new();
            sig.push(1000, 7, &TData::Bytes(vec![0x42; 8 + slack]));
            let hdr = gen_header_wf(&mut rng);
            let lead = gen_lead(&mut rng, false);
            let pad = (8 - (8 + slack) % 8) % 8;
            for kind in 0..4 {
                let filler: Vec<u8> = match kind {
                    0 => vec![0; pad],
                    1 => vec![0xff; pad],
                    2 => [0x8e, 0xad, 0xe8, 0x01, 0, 0, 0, 0][..pad].to_vec(),
                    _ => vec![],
                };
                let mut b = lead.clone();
                b.extend(sig.bytes());
                b.extend(filler);
                b.extend(hdr.bytes());
                b.extend_from_slice(&[1, 2, 3, 4, 5]);
                ctx.req(&format!("pkgrt {}", hx(&b)));
                ctx.req(&format!("metart {}", hx(&b)));
            }
        }
    }
    // every entry point / source kind on packages larger than the default BufReader capacity, some truncated / damaged
    let nb = ctx.q(120u64, 2_000) / sn;
    let _ = std::fs::create_dir_all("work/c01-blobs");
    for i in 0..nb {
        let mut bytes = gen_package_big(&mut ctx.rng, i);
        match i % 12 {
            10 => { let k = ctx.rng.below(bytes.len() as u64 + 1) as usize; bytes.truncate(k); }
            11 => { let k = 8192 - 3 + ctx.rng.below(6) as usize; bytes.truncate(k.min(bytes.len())); }
            _ => {}
        }
        let arg = blob_arg("work/c01-blobs", &format!("s{}-{}-{}", ctx.seed, si, i), &bytes);
        ctx.req(&format!("openrt01 {}", arg));
    }
    let n = ctx.q(20_000u64, 400_000) / sn;
    for i in 0..n {
        let mut bytes = gen_package_wf(&mut ctx.rng);
        match i % 10 {
            // a share of damaged / truncated inputs: mostly rejected (then the property is silent)
            7 => {
                let k = ctx.rng.below(bytes.len() as u64 + 1) as usize;
                bytes.truncate(k);
            }
            8 => {
                let lead = gen_lead(&mut ctx.rng, false);
                let mut sig = gen_header_wf(&mut ctx.rng);
                let mut hdr = gen_header_wf(&mut ctx.rng);
                if ctx.rng.chance(1, 2) { damage(&mut ctx.rng, &mut sig); } else { damage(&mut ctx.rng, &mut hdr); }
                bytes = assemble(&lead, &sig, 0, &hdr, &[1, 2, 3]);
            }
            9 => {
                // every value of a magic / version byte around the accepted ones
                let lead = gen_lead(&mut ctx.rng, false);
                let mut sig = gen_header_wf(&mut ctx.rng);
                let hdr = gen_header_wf(&mut ctx.rng);
                let which = ctx.rng.below(4) as usize;
                let val = *ctx.rng.pick(&[0u8, 1, 2, 0x8e, 0xad, 0xe8, 0xe7, 0xe9, 0xff]);
                if which < 3 { sig.magic[which] = val; } else { sig.version = val; }
                bytes = assemble(&lead, &sig, 0, &hdr, &[]);
            }
            _ => {}
        }
        let op = if i % 5 == 4 { "metart" } else { "pkgrt" };
        ctx.req(&format!("{} {}", op, hx(&bytes)));
        // values changed in memory before writing: cleared / fresh signature header (C01.cleared_fixpoint)
        if i % 25 == 3 {
            ctx.req(&format!("openrt01 {}", hx(&bytes)));
        }
        if i % 20 == 0 {
            ctx.req(&format!("pkgrtv {} {}", if i % 40 == 0 { "clear" } else { "newempty" }, hx(&bytes)));
        }
    }
}
