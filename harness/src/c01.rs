//! C01: parse then write reproduces the package byte for byte (and is a fixpoint).
use crate::common::*;
use crate::pkggen::*;

/// the input through a temporary file and `PackageMetadata::open`: equal to what `parse` returned for the bytes?
fn opened_equals(bytes: &[u8], m: &rpm::PackageMetadata) -> bool {
    static N: std::sync::atomic::AtomicU64 = std::sync::atomic::AtomicU64::new(0);
    let path = std::env::temp_dir().join(format!("rpmverif-c01-{}-{}.rpm", std::process::id(), N.fetch_add(1, std::sync::atomic::Ordering::Relaxed)));
    if std::fs::write(&path, bytes).is_err() {
        return false;
    }
    let r = rpm::PackageMetadata::open(&path);
    let _ = std::fs::remove_file(&path);
    matches!(r, Ok(ref o) if o == m)
}

/// observation for a package / metadata round trip
fn roundtrip(bytes: &[u8], meta_only: bool) -> String {
    if meta_only {
        let m = match rpm::PackageMetadata::parse(&mut &bytes[..]) {
            Ok(m) => m,
            Err(_) => return "err".into(),
        };
        let mut w = Vec::new();
        if m.write(&mut w).is_err() {
            return "err-write".into();
        }
        let (re, rw) = match rpm::PackageMetadata::parse(&mut &w[..]) {
            Ok(m2) => {
                let mut w2 = Vec::new();
                let _ = m2.write(&mut w2);
                // `PackageMetadata::open` (file → BufReader → parse) on the same input must give the same value as `parse`
                (m2 == m && opened_equals(bytes, &m), w2 == w)
            }
            Err(_) => (false, false),
        };
        format!("ok w={:016x} len={} re={} rw={}", fnv(&w), w.len(), re, rw)
    } else {
        let p = match rpm::Package::parse(&mut &bytes[..]) {
            Ok(p) => p,
            Err(_) => return "err".into(),
        };
        let mut w = Vec::new();
        if p.write(&mut w).is_err() {
            return "err-write".into();
        }
        let (re, rw) = match rpm::Package::parse(&mut &w[..]) {
            Ok(p2) => {
                let mut w2 = Vec::new();
                let _ = p2.write(&mut w2);
                (p2.metadata == p.metadata && p2.content == p.content, w2 == w)
            }
            Err(_) => (false, false),
        };
        format!("ok w={:016x} len={} re={} rw={}", fnv(&w), w.len(), re, rw)
    }
}

/// round trip of a value changed in memory: the signature header cleared (`Header::clear`) or replaced by
/// `Header::new_empty()` before writing
fn roundtrip_variant(variant: &str, bytes: &[u8]) -> String {
    let mut p = match rpm::Package::parse(&mut &bytes[..]) {
        Ok(p) => p,
        Err(_) => return "err".into(),
    };
    match variant {
        "clear" => p.metadata.signature.clear(),
        _ => p.metadata.signature = rpm::Header::<rpm::IndexSignatureTag>::new_empty(),
    }
    let mut w = Vec::new();
    if p.write(&mut w).is_err() {
        return "err-write".into();
    }
    let (re, rw) = match rpm::Package::parse(&mut &w[..]) {
        Ok(p2) => {
            let mut w2 = Vec::new();
            let _ = p2.write(&mut w2);
            (p2.metadata == p.metadata && p2.content == p.content, w2 == w)
        }
        Err(_) => (false, false),
    };
    format!("ok w={:016x} len={} re={} rw={}", fnv(&w), w.len(), re, rw)
}

pub fn eval(op: &str, a: &[&str]) -> Option<String> {
    match op {
        "pkgrtv" => Some(roundtrip_variant(a[0], &arg_bytes(a[1]))),
        "pkgrt" => Some(roundtrip(&arg_bytes(a[0]), false)),
        "metart" => Some(roundtrip(&arg_bytes(a[0]), true)),
        _ => None,
    }
}

pub fn gen(ctx: &mut Ctx) {
    let (si, sn) = ctx.shard;
    if si == 0 {
        // real-world packages
        for p in asset_paths() {
            ctx.req(&format!("pkgrt @{}", p.display()));
            ctx.req(&format!("metart @{}", p.display()));
            ctx.req(&format!("pkgrtv clear @{}", p.display()));
            ctx.req(&format!("pkgrtv newempty @{}", p.display()));
        }
        if let Ok(d) = std::fs::read_dir("/repo/test_assets/fixture_packages") {
            let mut v: Vec<_> = d.filter_map(|e| e.ok()).map(|e| e.path()).collect();
            v.sort();
            for p in v {
                if p.is_file() {
                    ctx.req(&format!("pkgrt @{}", p.display()));
                }
            }
        }
    }
    let n = ctx.q(20_000u64, 400_000) / sn;
    for i in 0..n {
        let mut bytes = gen_package_wf(&mut ctx.rng);
        match i % 10 {
            // a share of damaged / truncated inputs: mostly rejected (then the property is silent)
            7 => {
                let k = ctx.rng.below(bytes.len() as u64 + 1) as usize;
                bytes.truncate(k);
            }
            8 => {
                let lead = gen_lead(&mut ctx.rng, false);
                let mut sig = gen_header_wf(&mut ctx.rng);
                let mut hdr = gen_header_wf(&mut ctx.rng);
                if ctx.rng.chance(1, 2) { damage(&mut ctx.rng, &mut sig); } else { damage(&mut ctx.rng, &mut hdr); }
                bytes = assemble(&lead, &sig, 0, &hdr, &[1, 2, 3]);
            }
            9 => {
                // every value of a magic / version byte around the accepted ones
                let lead = gen_lead(&mut ctx.rng, false);
                let mut sig = gen_header_wf(&mut ctx.rng);
                let hdr = gen_header_wf(&mut ctx.rng);
                let which = ctx.rng.below(4) as usize;
                let val = *ctx.rng.pick(&[0u8, 1, 2, 0x8e, 0xad, 0xe8, 0xe7, 0xe9, 0xff]);
                if which < 3 { sig.magic[which] = val; } else { sig.version = val; }
                bytes = assemble(&lead, &sig, 0, &hdr, &[]);
            }
            _ => {}
        }
        let op = if i % 5 == 4 { "metart" } else { "pkgrt" };
        ctx.req(&format!("{} {}", op, hx(&bytes)));
        // values changed in memory before writing: cleared / fresh signature header (C01.cleared_fixpoint)
        if i % 20 == 0 {
            ctx.req(&format!("pkgrtv {} {}", if i % 40 == 0 { "clear" } else { "newempty" }, hx(&bytes)));
        }
    }
}
