//! C20: `Timestamp::try_from(SystemTime)` and `Timestamp::try_from(chrono::DateTime<Tz>)` on real values.
//! An instant travels as `<secs:i64> <nanos:u32>`: `secs + nanos/1e9` seconds after the epoch (secs = floor).
use crate::common::*;
use chrono::{DateTime, FixedOffset, Utc};
use rpm::{Timestamp, TimestampError};
use std::time::{Duration, SystemTime};

const NS: u32 = 1_000_000_000;
const TWO31: i64 = 1 << 31;
const TWO32: i64 = 1 << 32;

/// the real `SystemTime` for the instant, `None` when the platform cannot represent it
fn system_time(secs: i64, nanos: u32) -> Option<SystemTime> {
    if secs >= 0 {
        SystemTime::UNIX_EPOCH.checked_add(Duration::new(secs as u64, nanos))
    } else if nanos == 0 {
        SystemTime::UNIX_EPOCH.checked_sub(Duration::new(secs.unsigned_abs(), 0))
    } else {
        // secs + nanos/1e9 = -((-secs - 1) + (1e9 - nanos)/1e9)
        SystemTime::UNIX_EPOCH.checked_sub(Duration::new(secs.unsigned_abs() - 1, NS - nanos))
    }
}

thread_local! {
    /// the `Timestamp` of the most recent successful conversion (for ordering through `Timestamp`'s own `Ord`)
    static LAST: std::cell::Cell<Option<Timestamp>> = const { std::cell::Cell::new(None) };
}

fn obs(r: Result<Result<Timestamp, TimestampError>, String>) -> String {
    LAST.with(|c| c.set(match &r { Ok(Ok(t)) => Some(*t), _ => None }));
    match r {
        Ok(Ok(t)) => format!("ok {}", u32::from(t)),
        Ok(Err(TimestampError::Underflow)) => "underflow".into(),
        Ok(Err(TimestampError::Overflow)) => "overflow".into(),
        Err(_) => "panic".into(),
    }
}

/// one conversion; `kind` ∈ sys | utc | fix
fn convert(kind: &str, secs: i64, nanos: u32, off: i32) -> Option<String> {
    if nanos >= NS {
        return None;
    }
    Some(match kind {
        "sys" => match system_time(secs, nanos) {
            None => "unrepresentable".into(),
            Some(st) => obs(guarded(move || Timestamp::try_from(st))),
        },
        "utc" => match DateTime::<Utc>::from_timestamp(secs, nanos) {
            None => "unrepresentable".into(),
            Some(dt) => obs(guarded(move || Timestamp::try_from(dt))),
        },
        "fix" => {
            let tz = FixedOffset::east_opt(off)?;
            match DateTime::<Utc>::from_timestamp(secs, nanos) {
                None => "unrepresentable".into(),
                Some(dt) => {
                    let z: DateTime<FixedOffset> = dt.with_timezone(&tz);
                    obs(guarded(move || Timestamp::try_from(z)))
                }
            }
        }
        _ => return None,
    })
}

/// `tsfile S N`: a scratch file whose modification time is the instant, handed to `PackageBuilder::with_file`; the error
/// variant of a refused mtime, or the FILEMTIMES value read back from the built package (no source date set). `unrepresentable`
/// when the file system cannot hold the instant (checked by reading the mtime back). Seed C20-9: a builder-side helper that
/// reported pre-1970 mtimes as Overflow.
fn convert_file(secs: i64, nanos: u32) -> String {
    let Some(when) = system_time(secs, nanos) else { return "unrepresentable".into() };
    let path = std::path::PathBuf::from(format!("work/c20-mtime-{}", std::process::id()));
    let _ = std::fs::create_dir_all("work");
    let set = (|| -> std::io::Result<bool> {
        let f = std::fs::File::create(&path)?;
        f.set_modified(when)?;
        drop(f);
        Ok(std::fs::metadata(&path)?.modified()? == when)
    })();
    if !matches!(set, Ok(true)) {
        let _ = std::fs::remove_file(&path);
        return "unrepresentable".into();
    }
    let p2 = path.clone();
    let r = guarded(move || -> Result<Timestamp, TimestampError> {
        match rpm::PackageBuilder::new("c20", "1", "MIT", "noarch", "s").compression(rpm::CompressionType::None).with_file(&p2, rpm::FileOptions::new("/f")) {
            Err(rpm::Error::TimestampConv(e)) => Err(e),
            Err(e) => panic!("other error: {e}"),
            Ok(b) => {
                let pkg = b.build().expect("build");
                Ok(pkg.metadata.get_file_entries().expect("entries")[0].modified_at)
            }
        }
    });
    let _ = std::fs::remove_file(&path);
    obs(r)
}

pub fn eval(op: &str, a: &[&str]) -> Option<String> {
    let i = |s: &str| s.parse::<i64>().ok();
    let n = |s: &str| s.parse::<u32>().ok();
    let o = |s: &str| s.parse::<i32>().ok();
    match op {
        "tssys" if a.len() == 2 => convert("sys", i(a[0])?, n(a[1])?, 0),
        "tsfile" if a.len() == 2 => Some(convert_file(i(a[0])?, n(a[1])?)),
        "tsutc" if a.len() == 2 => convert("utc", i(a[0])?, n(a[1])?, 0),
        "tsfix" if a.len() == 3 => convert("fix", i(a[0])?, n(a[1])?, o(a[2])?),
        "tspair" if a.len() == 8 => {
            LAST.with(|c| c.set(None));
            let r1 = convert(a[0], i(a[1])?, n(a[2])?, o(a[3])?)?;
            let t1 = LAST.with(|c| c.take());
            let r2 = convert(a[4], i(a[5])?, n(a[6])?, o(a[7])?)?;
            let t2 = LAST.with(|c| c.take());
            // the order of the two results as `Timestamp` values (its own Ord / PartialOrd), not of the numbers
            let ord = match (t1, t2) {
                (Some(x), Some(y)) => {
                    let c = x.cmp(&y);
                    if x.partial_cmp(&y) != Some(c) || (x == y) != (c == std::cmp::Ordering::Equal) || (x < y) != (c == std::cmp::Ordering::Less) {
                        "incoherent"
                    } else { ord_str(c) }
                }
                _ => "-",
            };
            Some(format!("{} & {} & {}", r1, r2, ord))
        }
        // a chrono reading INSIDE a leap second: second S (S % 60 == 59 in the zone) with nanos = 1e9 + EXTRA
        "tsleap" if a.len() == 4 => {
            let (kind, secs, extra, off) = (a[0], i(a[1])?, n(a[2])?, o(a[3])?);
            if extra >= NS { return None; }
            Some(match DateTime::<Utc>::from_timestamp(secs, NS + extra) {
                None => "unrepresentable".into(),
                Some(dt) => match kind {
                    "utc" => obs(guarded(move || Timestamp::try_from(dt))),
                    "fix" => {
                        let tz = FixedOffset::east_opt(off)?;
                        let z: DateTime<FixedOffset> = dt.with_timezone(&tz);
                        obs(guarded(move || Timestamp::try_from(z)))
                    }
                    _ => return None,
                },
            })
        }
        _ => None,
    }
}

const SUBSEC: [u32; 4] = [0, 1, 500_000_000, 999_999_999];

/// −12 h … +14 h in 1 h steps, then the odd zones and the extremes chrono allows (|off| < 86400)
fn offsets() -> Vec<i32> {
    let mut v: Vec<i32> = (-12..=14).map(|h| h * 3600).collect();
    v.extend_from_slice(&[
        5 * 3600 + 45 * 60,  // +05:45 Nepal
        -(3 * 3600 + 30 * 60), // -03:30 Newfoundland
        5 * 3600 + 30 * 60,
        12 * 3600 + 45 * 60,
        -(9 * 3600 + 30 * 60),
        8 * 3600 + 45 * 60,
        1,
        -1,
        86_399,
        -86_399,
        -1521, // -00:25:21 (an offset with a seconds part)
    ]);
    v
}

fn emit_instant(ctx: &mut Ctx, secs: i64, nanos: u32, offs: &[i32]) {
    ctx.req(&format!("tssys {} {}", secs, nanos));
    ctx.req(&format!("tsutc {} {}", secs, nanos));
    for off in offs {
        ctx.req(&format!("tsfix {} {} {}", secs, nanos, off));
    }
}

fn pick_nanos(rng: &mut Rng) -> u32 {
    match rng.below(8) {
        0 | 1 => 0,
        2 => 1,
        3 => 999_999_999,
        4 => 500_000_000,
        5 => 499_999_999,
        _ => rng.below(NS as u64) as u32,
    }
}

/// seconds spread over ±2^40 with a bias toward 0, 2^31 and 2^32
fn pick_secs(rng: &mut Rng) -> i64 {
    let centre = *rng.pick(&[0i64, 0, TWO31, TWO32, TWO32]);
    match rng.below(6) {
        0 => rng.range(-(1i64 << 40), 1i64 << 40),
        1 => rng.range(-(1i64 << 33), 1i64 << 34),
        2 => centre + rng.range(-5, 5),
        3 => centre + rng.range(-100_000, 100_000),
        4 => {
            // ± a power of two (plus jitter) away from the boundary
            let k = rng.below(40) as u32;
            let d = (1i64 << k) + rng.range(-2, 2);
            if rng.chance(1, 2) { centre + d } else { centre - d }
        }
        _ => centre + rng.range(-(1i64 << 24), 1i64 << 24),
    }
}

/// mostly inside 0..2^32 (so that both members of an ordering pair usually convert), hugging the edges
fn pick_secs_inside(rng: &mut Rng) -> i64 {
    match rng.below(8) {
        0 => pick_secs(rng),
        1 => rng.range(0, TWO32 - 1),
        2 => rng.range(0, 5),
        3 => TWO32 - 1 - rng.range(0, 5),
        4 => rng.range(0, 100_000),
        5 => TWO32 - 1 - rng.range(0, 100_000),
        6 => TWO31 + rng.range(-100_000, 100_000),
        _ => {
            let k = 1 + rng.below(32) as u32;
            rng.range(0, 1i64 << k).min(TWO32 - 1)
        }
    }
}

fn pick_kind(rng: &mut Rng, offs: &[i32]) -> (&'static str, i32) {
    match rng.below(4) {
        0 => ("sys", 0),
        1 => ("utc", 0),
        2 => ("fix", *rng.pick(offs)),
        _ => ("fix", rng.range(-86_399, 86_399) as i32),
    }
}

fn req_of(kind: &str, secs: i64, nanos: u32, off: i32) -> String {
    match kind {
        "sys" => format!("tssys {} {}", secs, nanos),
        "utc" => format!("tsutc {} {}", secs, nanos),
        _ => format!("tsfix {} {} {}", secs, nanos, off),
    }
}

pub fn gen(ctx: &mut Ctx) {
    let (si, sn) = ctx.shard;
    let offs = offsets();

    // 1. every second in ±2000 around 0, 2^31 and 2^32, four sub-second offsets each;
    //    SystemTime, DateTime<Utc>, and fixed-offset zones: all of them for the seconds within ±3 of a
    //    boundary (and everywhere in the thorough tier), three rotating ones elsewhere
    let mut idx: u64 = 0;
    for centre in [0i64, TWO31, TWO32] {
        for d in -2000i64..=2000 {
            for (k, nanos) in SUBSEC.iter().enumerate() {
                idx += 1;
                if idx % sn != si {
                    continue;
                }
                let secs = centre + d;
                if ctx.thorough || d.abs() <= 3 {
                    emit_instant(ctx, secs, *nanos, &offs);
                } else {
                    let j = (d.rem_euclid(offs.len() as i64) as usize + k * 7) % offs.len();
                    let sel = [offs[j], offs[(j + 11) % offs.len()], offs[(j + 23) % offs.len()]];
                    emit_instant(ctx, secs, *nanos, &sel);
                }
            }
        }
    }

    // 1b. the same conversion reached through `PackageBuilder::with_file` (a source file's modification time): every second
    //     within ±40 of the three boundaries, with and without a sub-second part, plus a few far points
    {
        let mut k = 0u64;
        for centre in [0i64, TWO31, TWO32] {
            for d in -40i64..=40 {
                for nanos in [0u32, 500_000_000, 999_999_999] {
                    k += 1;
                    if k % sn == si { ctx.req(&format!("tsfile {} {}", centre + d, nanos)); }
                }
            }
        }
        for secs in [-86_400i64, -2_000_000_000, -1, 1_600_000_000, 5_000_000_000, 10_000_000_000] {
            k += 1;
            if k % sn == si { ctx.req(&format!("tsfile {} 0", secs)); }
        }
    }

    // 2. extreme representable values (and the first unrepresentable ones beyond them)
    if si == 0 {
        let min = DateTime::<Utc>::MIN_UTC;
        let max = DateTime::<Utc>::MAX_UTC;
        let (mins, minn) = (min.timestamp(), min.timestamp_subsec_nanos());
        let (maxs, maxn) = (max.timestamp(), max.timestamp_subsec_nanos() % NS);
        assert_eq!(DateTime::<Utc>::from_timestamp(mins, minn), Some(min));
        let mut secs_list = vec![
            i64::MIN, i64::MIN + 1, i64::MIN / 2, -(1i64 << 62), -(1i64 << 53), -(1i64 << 41), -(1i64 << 40),
            mins - 1, mins, mins + 1, mins + 86_400, maxs - 86_400, maxs - 1, maxs, maxs + 1,
            1i64 << 40, 1i64 << 41, 1i64 << 53, 1i64 << 62, i64::MAX / 2, i64::MAX - 1, i64::MAX,
            u32::MAX as i64, u32::MAX as i64 + 1, i32::MAX as i64, i32::MAX as i64 + 1, i32::MIN as i64, i32::MIN as i64 - 1,
            -1, 0, 1,
        ];
        secs_list.sort();
        secs_list.dedup();
        let ext_offs = [0, 3600, -3600, 20_700, -12_600, 50_400, -43_200, 86_399, -86_399];
        for secs in secs_list {
            let mut nanos_list = vec![0u32, 1, 500_000_000, 999_999_999, minn, maxn];
            nanos_list.sort();
            nanos_list.dedup();
            for nanos in nanos_list {
                emit_instant(ctx, secs, nanos, &ext_offs);
            }
        }
    }

    // 2b. readings inside a leap second (chrono keeps them as nanos >= 1e9 on a second that is :59), at the boundaries
    if si == 0 {
        for base in [-1i64, 59, -61, TWO31 + 51, TWO31 - 9, TWO32 - 17, TWO32 + 43, 1_483_228_799] {
            for extra in [0u32, 1, 500_000_000, 999_999_999] {
                ctx.req(&format!("tsleap utc {} {} 0", base, extra));
                for off in [3600, -3600, 19_800, -12_600] {
                    ctx.req(&format!("tsleap fix {} {} {}", base, extra, off));
                }
            }
        }
    }

    // 3. seeded instants over ±2^40 s biased to the boundaries
    let n = ctx.q(100_000u64, 2_000_000) / sn;
    for _ in 0..n {
        let secs = pick_secs(&mut ctx.rng);
        let nanos = pick_nanos(&mut ctx.rng);
        let (k, off) = pick_kind(&mut ctx.rng, &offs);
        ctx.req(&req_of(k, secs, nanos, off));
    }

    // 4. ordering: two instants a small (or no, or a random) distance apart, any mix of conversions
    let n = ctx.q(40_000u64, 600_000) / sn;
    for _ in 0..n {
        let s1 = pick_secs_inside(&mut ctx.rng);
        let n1 = pick_nanos(&mut ctx.rng);
        let (s2, n2) = match ctx.rng.below(7) {
            0 => (s1, n1),
            1 => (s1, pick_nanos(&mut ctx.rng)),
            2 => {
                // + 1 ns, carrying into the next second
                if n1 + 1 == NS { (s1 + 1, 0) } else { (s1, n1 + 1) }
            }
            3 => (s1 + ctx.rng.range(-2, 2), pick_nanos(&mut ctx.rng)),
            4 => (s1 + ctx.rng.range(-100_000, 100_000), pick_nanos(&mut ctx.rng)),
            5 => (pick_secs_inside(&mut ctx.rng), pick_nanos(&mut ctx.rng)),
            // far apart: more than 2^31 s (the distance at which serial-number style comparisons flip)
            _ => ((s1 + TWO31 + ctx.rng.range(-3, 100_000)).rem_euclid(TWO32), pick_nanos(&mut ctx.rng)),
        };
        let (k1, o1) = pick_kind(&mut ctx.rng, &offs);
        let (k2, o2) = pick_kind(&mut ctx.rng, &offs);
        ctx.req(&format!("tspair {} {} {} {} {} {} {} {}", k1, s1, n1, o1, k2, s2, n2, o2));
    }
}
