//! C20: `Timestamp::try_from(SystemTime)` and `Timestamp::try_from(chrono::DateTime<Tz>)` on real values.
//! An instant travels as `<secs:i64> <nanos:u32>`: `secs + nanos/1e9` seconds after the epoch (secs = floor).
use crate::common::*;
use chrono::{DateTime, FixedOffset, Local, NaiveDate, TimeZone, Timelike, Utc};
use rpm::{Timestamp, TimestampError};
use std::time::{Duration, SystemTime};

const NS: u32 = 1_000_000_000;
const TWO31: i64 = 1 << 31;
const TWO32: i64 = 1 << 32;

/// the real `SystemTime` for the instant, `None` when the platform cannot represent it
fn system_time(secs: i64, nanos: u32) -> Option<SystemTime> {
    if secs >= 0 {
        SystemTime::UNIX_EPOCH.checked_add(Duration::new(secs as u64, nanos))
    } else if nanos == 0 {
        SystemTime::UNIX_EPOCH.checked_sub(Duration::new(secs.unsigned_abs(), 0))
    } else {
        // secs + nanos/1e9 = -((-secs - 1) + (1e9 - nanos)/1e9)
        SystemTime::UNIX_EPOCH.checked_sub(Duration::new(secs.unsigned_abs() - 1, NS - nanos))
    }
}

thread_local! {
    /// the `Timestamp` of the most recent successful conversion (for ordering through `Timestamp`'s own `Ord`)
    static LAST: std::cell::Cell<Option<Timestamp>> = const { std::cell::Cell::new(None) };
}

fn obs(r: Result<Result<Timestamp, TimestampError>, String>) -> String {
    LAST.with(|c| c.set(match &r { Ok(Ok(t)) => Some(*t), _ => None }));
    match r {
        Ok(Ok(t)) => format!("ok {}", u32::from(t)),
        Ok(Err(TimestampError::Underflow)) => "underflow".into(),
        Ok(Err(TimestampError::Overflow)) => "overflow".into(),
        Err(_) => "panic".into(),
    }
}

/// one conversion; `kind` ∈ sys | utc | fix
fn convert(kind: &str, secs: i64, nanos: u32, off: i32) -> Option<String> {
    if nanos >= NS {
        return None;
    }
    Some(match kind {
        "sys" => match system_time(secs, nanos) {
            None => "unrepresentable".into(),
            Some(st) => obs(guarded(move || Timestamp::try_from(st))),
        },
        "utc" => match DateTime::<Utc>::from_timestamp(secs, nanos) {
            None => "unrepresentable".into(),
            Some(dt) => obs(guarded(move || Timestamp::try_from(dt))),
        },
        "fix" => {
            let tz = FixedOffset::east_opt(off)?;
            match DateTime::<Utc>::from_timestamp(secs, nanos) {
                None => "unrepresentable".into(),
                Some(dt) => {
                    let z: DateTime<FixedOffset> = dt.with_timezone(&tz);
                    obs(guarded(move || Timestamp::try_from(z)))
                }
            }
        }
        _ => return None,
    })
}

/// `tsfile S N`: a scratch file whose modification time is the instant, handed to `PackageBuilder::with_file`; the error
/// variant of a refused mtime, or the FILEMTIMES value read back from the built package (no source date set). `unrepresentable`
/// when the file system cannot hold the instant (checked by reading the mtime back). Seed C20-9: a builder-side helper that
/// reported pre-1970 mtimes as Overflow.
fn convert_file(secs: i64, nanos: u32) -> String {
    let Some(when) = system_time(secs, nanos) else { return "unrepresentable".into() };
    let path = std::path::PathBuf::from(format!("work/c20-mtime-{}", std::process::id()));
    let _ = std::fs::create_dir_all("work");
    let set = (|| -> std::io::Result<bool> {
        let f = std::fs::File::create(&path)?;
        f.set_modified(when)?;
        drop(f);
        Ok(std::fs::metadata(&path)?.modified()? == when)
    })();
    if !matches!(set, Ok(true)) {
        let _ = std::fs::remove_file(&path);
        return "unrepresentable".into();
    }
    let p2 = path.clone();
    let r = guarded(move || -> Result<Timestamp, TimestampError> {
        match rpm::PackageBuilder::new("c20", "1", "MIT", "noarch", "s").compression(rpm::CompressionType::None).with_file(&p2, rpm::FileOptions::new("/f")) {
            Err(rpm::Error::TimestampConv(e)) => Err(e),
            Err(e) => panic!("other error: {e}"),
            Ok(b) => {
                let pkg = b.build().expect("build");
                Ok(pkg.metadata.get_file_entries().expect("entries")[0].modified_at)
            }
        }
    });
    let _ = std::fs::remove_file(&path);
    obs(r)
}

/// `tscal20 KIND Y M D h m s FRAC OFF`: a `DateTime` built from calendar fields (never from a timestamp).
/// FRAC ≥ 1e9 is a reading inside a leap second (chrono accepts it on second 59 only).
fn convert_calendar(kind: &str, y: i64, mo: u32, d: u32, h: u32, mi: u32, sec: u32, frac: u32, off: i32) -> Option<String> {
    let year = match i32::try_from(y) {
        Ok(v) => v,
        Err(_) => return Some("unrepresentable".into()),
    };
    let dt: Option<DateTime<FixedOffset>> = match kind {
        "ymd" => {
            let tz = FixedOffset::east_opt(off)?;
            NaiveDate::from_ymd_opt(year, mo, d)
                .and_then(|date| date.and_hms_nano_opt(h, mi, sec, frac))
                .and_then(|naive| naive.and_local_timezone(tz).single())
        }
        "rfc" => {
            // the text is written here, digit by digit — not with chrono's formatter
            if !(0..=9999).contains(&year) || off % 60 != 0 || off.abs() >= 86_400 || frac >= 2 * NS {
                None
            } else {
                let (s_txt, f_txt) = if frac >= NS { (sec + 1, frac - NS) } else { (sec, frac) };
                let zone = if off == 0 {
                    "Z".to_string()
                } else {
                    format!("{}{:02}:{:02}", if off < 0 { '-' } else { '+' }, off.abs() / 3600, off.abs() % 3600 / 60)
                };
                let text = format!("{:04}-{:02}-{:02}T{:02}:{:02}:{:02}.{:09}{}", year, mo, d, h, mi, s_txt, f_txt, zone);
                DateTime::parse_from_rfc3339(&text).ok()
            }
        }
        "utc" => {
            if off != 0 {
                return None;
            }
            Utc.with_ymd_and_hms(year, mo, d, h, mi, sec).single().and_then(|t| t.with_nanosecond(frac)).map(|t| t.fixed_offset())
        }
        _ => return None,
    };
    Some(match dt {
        None => "unrepresentable".into(),
        Some(z) => obs(guarded(move || Timestamp::try_from(z))),
    })
}

/// `tsloc20 TZ OFF S N`: `chrono::Local` under the environment variable TZ. chrono caches the zone per thread (and re-reads the
/// variable at most once a second), so every request runs in a fresh thread, which reads the variable anew.
fn convert_local(tz: &str, want_off: Option<i32>, secs: i64, nanos: u32) -> String {
    std::env::set_var("TZ", tz);
    let r = std::thread::spawn(move || -> String {
        let made = guarded(move || Local.timestamp_opt(secs, nanos).single());
        match made {
            Err(_) | Ok(None) => "unrepresentable".into(),
            Ok(Some(dt)) => {
                let shown = dt.offset().local_minus_utc();
                if want_off.map(|w| w != shown).unwrap_or(false) {
                    return "tzignored".into();
                }
                obs(guarded(move || Timestamp::try_from(dt)))
            }
        }
    })
    .join()
    .unwrap_or_else(|_| "panic".into());
    std::env::remove_var("TZ");
    r
}

pub fn eval(op: &str, a: &[&str]) -> Option<String> {
    let i = |s: &str| s.parse::<i64>().ok();
    let n = |s: &str| s.parse::<u32>().ok();
    let o = |s: &str| s.parse::<i32>().ok();
    match op {
        "tssys" if a.len() == 2 => convert("sys", i(a[0])?, n(a[1])?, 0),
        "tsfile" if a.len() == 2 => Some(convert_file(i(a[0])?, n(a[1])?)),
        "tsutc" if a.len() == 2 => convert("utc", i(a[0])?, n(a[1])?, 0),
        "tscal20" if a.len() == 9 => convert_calendar(a[0], i(a[1])?, n(a[2])?, n(a[3])?, n(a[4])?, n(a[5])?, n(a[6])?, n(a[7])?, o(a[8])?),
        // `DateTime::from(SystemTime)`: chrono's own conversion of a system time (it panics outside chrono's range: then the
        // value cannot be built and the answer is `unrepresentable`)
        "tsst20" if a.len() == 3 => {
            let (secs, nanos) = (i(a[1])?, n(a[2])?);
            if nanos >= NS {
                return None;
            }
            Some(match system_time(secs, nanos) {
                None => "unrepresentable".into(),
                Some(st) => match a[0] {
                    "utc" => match guarded(move || DateTime::<Utc>::from(st)) {
                        Err(_) => "unrepresentable".into(),
                        Ok(dt) => obs(guarded(move || Timestamp::try_from(dt))),
                    },
                    "loc" => match guarded(move || DateTime::<Local>::from(st)) {
                        Err(_) => "unrepresentable".into(),
                        Ok(dt) => obs(guarded(move || Timestamp::try_from(dt))),
                    },
                    _ => return None,
                },
            })
        }
        "tsloc20" if a.len() == 4 => {
            let tz = String::from_utf8(unhx(a[0])).ok()?;
            let want = if a[1] == "-" { None } else { Some(o(a[1])?) };
            let (secs, nanos) = (i(a[2])?, n(a[3])?);
            if nanos >= NS {
                return None;
            }
            Some(convert_local(&tz, want, secs, nanos))
        }
        // the real `Timestamp::now()` (no override): it must lie between two readings of the system clock
        "tsnow20" if a.is_empty() => {
            let secs_now = || SystemTime::now().duration_since(SystemTime::UNIX_EPOCH).map(|d| d.as_secs()).unwrap_or(0);
            let before = secs_now();
            let r = guarded(Timestamp::now);
            let after = secs_now();
            Some(match r {
                Err(_) => "panic".into(),
                Ok(t) => if before <= u32::from(t) as u64 && u32::from(t) as u64 <= after { "in".into() } else { "out".into() },
            })
        }
        "tsfix" if a.len() == 3 => convert("fix", i(a[0])?, n(a[1])?, o(a[2])?),
        "tspair" if a.len() == 8 => {
            LAST.with(|c| c.set(None));
            let r1 = convert(a[0], i(a[1])?, n(a[2])?, o(a[3])?)?;
            let t1 = LAST.with(|c| c.take());
            let r2 = convert(a[4], i(a[5])?, n(a[6])?, o(a[7])?)?;
            let t2 = LAST.with(|c| c.take());
            // the order of the two results as `Timestamp` values (its own Ord / PartialOrd), not of the numbers
            let ord = match (t1, t2) {
                (Some(x), Some(y)) => {
                    let c = x.cmp(&y);
                    if x.partial_cmp(&y) != Some(c) || (x == y) != (c == std::cmp::Ordering::Equal) || (x < y) != (c == std::cmp::Ordering::Less) {
                        "incoherent"
                    } else { ord_str(c) }
                }
                _ => "-",
            };
            Some(format!("{} & {} & {}", r1, r2, ord))
        }
        // a chrono reading INSIDE a leap second: second S (S % 60 == 59 in the zone) with nanos = 1e9 + EXTRA
        "tsleap" if a.len() == 4 => {
            let (kind, secs, extra, off) = (a[0], i(a[1])?, n(a[2])?, o(a[3])?);
            if extra >= NS { return None; }
            Some(match DateTime::<Utc>::from_timestamp(secs, NS + extra) {
                None => "unrepresentable".into(),
                Some(dt) => match kind {
                    "utc" => obs(guarded(move || Timestamp::try_from(dt))),
                    "fix" => {
                        let tz = FixedOffset::east_opt(off)?;
                        let z: DateTime<FixedOffset> = dt.with_timezone(&tz);
                        obs(guarded(move || Timestamp::try_from(z)))
                    }
                    _ => return None,
                },
            })
        }
        _ => None,
    }
}

const SUBSEC: [u32; 4] = [0, 1, 500_000_000, 999_999_999];

/// −12 h … +14 h in 1 h steps, then the odd zones and the extremes chrono allows (|off| < 86400)
fn offsets() -> Vec<i32> {
    let mut v: Vec<i32> = (-12..=14).map(|h| h * 3600).collect();
    v.extend_from_slice(&[
        5 * 3600 + 45 * 60,  // +05:45 Nepal
        -(3 * 3600 + 30 * 60), // -03:30 Newfoundland
        5 * 3600 + 30 * 60,
        12 * 3600 + 45 * 60,
        -(9 * 3600 + 30 * 60),
        8 * 3600 + 45 * 60,
        1,
        -1,
        86_399,
        -86_399,
        -1521, // -00:25:21 (an offset with a seconds part)
    ]);
    v
}

fn emit_instant(ctx: &mut Ctx, secs: i64, nanos: u32, offs: &[i32]) {
    ctx.req(&format!("tssys {} {}", secs, nanos));
    ctx.req(&format!("tsutc {} {}", secs, nanos));
    for off in offs {
        ctx.req(&format!("tsfix {} {} {}", secs, nanos, off));
    }
}

fn pick_nanos(rng: &mut Rng) -> u32 {
    match rng.below(8) {
        0 | 1 => 0,
        2 => 1,
        3 => 999_999_999,
        4 => 500_000_000,
        5 => 499_999_999,
        _ => rng.below(NS as u64) as u32,
    }
}

/// seconds spread over ±2^40 with a bias toward 0, 2^31 and 2^32
fn pick_secs(rng: &mut Rng) -> i64 {
    let centre = *rng.pick(&[0i64, 0, TWO31, TWO32, TWO32]);
    match rng.below(6) {
        0 => rng.range(-(1i64 << 40), 1i64 << 40),
        1 => rng.range(-(1i64 << 33), 1i64 << 34),
        2 => centre + rng.range(-5, 5),
        3 => centre + rng.range(-100_000, 100_000),
        4 => {
            // ± a power of two (plus jitter) away from the boundary
            let k = rng.below(40) as u32;
            let d = (1i64 << k) + rng.range(-2, 2);
            if rng.chance(1, 2) { centre + d } else { centre - d }
        }
        _ => centre + rng.range(-(1i64 << 24), 1i64 << 24),
    }
}

/// mostly inside 0..2^32 (so that both members of an ordering pair usually convert), hugging the edges
fn pick_secs_inside(rng: &mut Rng) -> i64 {
    match rng.below(8) {
        0 => pick_secs(rng),
        1 => rng.range(0, TWO32 - 1),
        2 => rng.range(0, 5),
        3 => TWO32 - 1 - rng.range(0, 5),
        4 => rng.range(0, 100_000),
        5 => TWO32 - 1 - rng.range(0, 100_000),
        6 => TWO31 + rng.range(-100_000, 100_000),
        _ => {
            let k = 1 + rng.below(32) as u32;
            rng.range(0, 1i64 << k).min(TWO32 - 1)
        }
    }
}

fn pick_kind(rng: &mut Rng, offs: &[i32]) -> (&'static str, i32) {
    match rng.below(4) {
        0 => ("sys", 0),
        1 => ("utc", 0),
        2 => ("fix", *rng.pick(offs)),
        _ => ("fix", rng.range(-86_399, 86_399) as i32),
    }
}

fn req_of(kind: &str, secs: i64, nanos: u32, off: i32) -> String {
    match kind {
        "sys" => format!("tssys {} {}", secs, nanos),
        "utc" => format!("tsutc {} {}", secs, nanos),
        _ => format!("tsfix {} {} {}", secs, nanos, off),
    }
}

/// civil date of a day number (days since 1970-01-01), proleptic Gregorian calendar — the harness's own arithmetic
/// (H. Hinnant's `civil_from_days`), independent of chrono and of the Lean `daysFromCivil`
fn civil_from_days(z: i64) -> (i64, u32, u32) {
    let z = z + 719_468;
    let era = z.div_euclid(146_097);
    let doe = z.rem_euclid(146_097);
    let yoe = (doe - doe / 1460 + doe / 36_524 - doe / 146_096) / 365;
    let y = yoe + era * 400;
    let doy = doe - (365 * yoe + yoe / 4 - yoe / 100);
    let mp = (5 * doy + 2) / 153;
    let d = (doy - (153 * mp + 2) / 5 + 1) as u32;
    let m = if mp < 10 { mp + 3 } else { mp - 9 } as u32;
    (if m <= 2 { y + 1 } else { y }, m, d)
}

/// the calendar request for the instant `secs` (+ `frac` ns) read on a wall clock `off` seconds east of UTC
fn cal_req(kind: &str, secs: i64, frac: u32, off: i32) -> String {
    let local = secs + off as i64;
    let (y, m, d) = civil_from_days(local.div_euclid(86_400));
    let t = local.rem_euclid(86_400);
    format!("tscal20 {} {} {} {} {} {} {} {} {}", kind, y, m, d, t / 3600, t % 3600 / 60, t % 60, frac, off)
}

/// POSIX zone texts (no tz database needed): with daylight-saving rules, fixed offsets with minutes, whole hours, the extremes
const ZONES: &[&str] = &[
    "UTC0", "EST5EDT,M3.2.0,M11.1.0", "CET-1CEST,M3.5.0,M10.5.0/3", "NST3:30NDT,M3.2.0,M11.1.0", "LHST-10:30LHDT-11,M10.1.0,M4.1.0",
    "<+0545>-5:45", "<-0930>9:30", "<+14>-14", "<-12>12", "IST-5:30", "<+1245>-12:45NZDT,M9.5.0/2:45,M4.1.0/3:45",
];

pub fn gen(ctx: &mut Ctx) {
    let (si, sn) = ctx.shard;
    let offs = offsets();

    // 0. AUDIT2 b22 / a23: date-times that are NOT made by `from_timestamp` —
    //    calendar fields (`NaiveDate` + `and_local_timezone`, `Utc.with_ymd_and_hms`), RFC 3339 texts, `DateTime::from(SystemTime)`,
    //    `Local` under a set TZ, and readings inside a leap second built each of these ways
    {
        let mut k = 0u64;
        let mut put = |ctx: &mut Ctx, line: String| {
            k += 1;
            if k % sn == si {
                ctx.req(&line);
            }
        };
        let cal_offs = [0i32, 3600, -3600, 19_800, -12_600, 20_700, 50_400, -43_200, 86_399, -86_399, -1521, 1];
        for centre in [0i64, TWO31, TWO32] {
            for dlt in -70i64..=70 {
                let secs = centre + dlt;
                for frac in [0u32, 999_999_999] {
                    for (j, off) in cal_offs.iter().enumerate() {
                        if dlt.abs() > 3 && (dlt.rem_euclid(cal_offs.len() as i64) as usize) != j {
                            continue;
                        }
                        put(ctx, cal_req("ymd", secs, frac, *off));
                        if off % 60 == 0 {
                            put(ctx, cal_req("rfc", secs, frac, *off));
                        }
                    }
                    put(ctx, cal_req("utc", secs, frac, 0));
                    put(ctx, format!("tsst20 utc {} {}", secs, frac));
                    put(ctx, format!("tsst20 loc {} {}", secs, frac));
                }
                // a leap-second reading on every wall-clock second that is a :59 (in the zone's own minutes)
                // (offset 44 s puts a wall-clock :59 on the UTC second 2^32 - 1, offset -16 s on 2^32 + 15, …)
                for off in [0i32, 3600, -12_600, 20_700, -1521, 44, -16, 1] {
                    if (secs + off as i64).rem_euclid(60) == 59 {
                        for extra in [0u32, 1, 999_999_999] {
                            put(ctx, cal_req("ymd", secs, NS + extra, off));
                            if off % 60 == 0 {
                                put(ctx, cal_req("rfc", secs, NS + extra, off));
                            }
                            if off == 0 {
                                put(ctx, cal_req("utc", secs, NS + extra, 0));
                            }
                        }
                    }
                }
                // `Local` under every zone text (offset not stated: it depends on the rule)
                for (j, tz) in ZONES.iter().enumerate() {
                    if dlt.abs() <= 2 || (dlt.rem_euclid(ZONES.len() as i64) as usize) == j {
                        put(ctx, format!("tsloc20 {} - {} {}", hx(tz.as_bytes()), secs, if dlt % 2 == 0 { 0 } else { 999_999_999 }));
                    }
                }
            }
        }
        // the zone texts do take effect: instants with the offset the rule must show (winter / summer of 2021, both hemispheres)
        for (tz, secs, off) in [
            ("EST5EDT,M3.2.0,M11.1.0", 1_610_712_000i64, -18_000i32), ("EST5EDT,M3.2.0,M11.1.0", 1_626_350_400, -14_400),
            ("CET-1CEST,M3.5.0,M10.5.0/3", 1_610_712_000, 3600), ("CET-1CEST,M3.5.0,M10.5.0/3", 1_626_350_400, 7200),
            ("LHST-10:30LHDT-11,M10.1.0,M4.1.0", 1_610_712_000, 39_600), ("LHST-10:30LHDT-11,M10.1.0,M4.1.0", 1_626_350_400, 37_800),
            ("<+0545>-5:45", 0, 20_700), ("<-0930>9:30", TWO32 - 1, -34_200), ("<+14>-14", TWO32, 50_400), ("<-12>12", -1, -43_200),
            ("UTC0", TWO31, 0), ("NST3:30NDT,M3.2.0,M11.1.0", 1_610_712_000, -12_600), ("NST3:30NDT,M3.2.0,M11.1.0", 1_626_350_400, -9000),
        ] {
            put(ctx, format!("tsloc20 {} {} {} 0", hx(tz.as_bytes()), off, secs));
            put(ctx, format!("tsloc20 {} {} {} 999999999", hx(tz.as_bytes()), off, secs));
        }
        // calendar corner dates: leap days, century years, year ends, far years, invalid fields (chrono refuses them)
        for (y, m, d) in [
            (1970i64, 1u32, 1u32), (1969, 12, 31), (2000, 2, 29), (2100, 2, 28), (2100, 3, 1), (2038, 1, 19), (2106, 2, 7), (2106, 2, 8), (1999, 12, 31),
            (2024, 2, 29), (2023, 2, 28), (1600, 2, 29), (1, 1, 1), (0, 12, 31), (9999, 12, 31), (-1, 3, 1), (-400, 2, 29), (200_000, 6, 15), (-200_000, 6, 15),
            (2023, 2, 29), (2100, 2, 29), (2024, 4, 31), (2024, 13, 1), (2024, 0, 10), (2024, 5, 0),
        ] {
            for (h, mi, s) in [(0u32, 0u32, 0u32), (23, 59, 59), (6, 28, 15), (6, 28, 16), (12, 0, 60), (24, 0, 0)] {
                for off in [0i32, 20_700, -12_600] {
                    put(ctx, format!("tscal20 ymd {} {} {} {} {} {} 0 {}", y, m, d, h, mi, s, off));
                    if off % 60 == 0 {
                        put(ctx, format!("tscal20 rfc {} {} {} {} {} {} 500000000 {}", y, m, d, h, mi, s, off));
                    }
                }
                put(ctx, format!("tscal20 utc {} {} {} {} {} {} 1 0", y, m, d, h, mi, s));
            }
        }
        // seeded: any instant of ±2^36 s, any of the constructions
        let n = ctx.q(30_000u64, 400_000);
        for _ in 0..n {
            let secs = match ctx.rng.below(3) {
                0 => pick_secs_inside(&mut ctx.rng),
                1 => *ctx.rng.pick(&[0i64, TWO31, TWO32]) + ctx.rng.range(-100_000, 100_000),
                _ => ctx.rng.range(-(1i64 << 36), 1i64 << 36),
            };
            let frac = pick_nanos(&mut ctx.rng);
            let off = match ctx.rng.below(3) {
                0 => *ctx.rng.pick(&offs),
                1 => (ctx.rng.range(-1439, 1439) * 60) as i32,
                _ => ctx.rng.range(-86_399, 86_399) as i32,
            };
            let line = match ctx.rng.below(6) {
                0 => cal_req("ymd", secs, frac, off),
                1 => cal_req("rfc", secs, frac, off - off % 60),
                2 => cal_req("utc", secs, frac, 0),
                3 => format!("tsst20 {} {} {}", if ctx.rng.chance(1, 2) { "utc" } else { "loc" }, secs, frac),
                4 => format!("tsloc20 {} - {} {}", hx(ctx.rng.pick(ZONES).as_bytes()), secs, frac),
                _ => {
                    // a leap reading: move to the :59 of the wall-clock minute
                    let local = secs + off as i64;
                    let s59 = local - local.rem_euclid(60) + 59 - off as i64;
                    cal_req("ymd", s59, NS + frac, off)
                }
            };
            put(ctx, line);
        }
        if si == 0 {
            ctx.req("tsnow20");
        }
    }

    // 1. every second in ±2000 around 0, 2^31 and 2^32, four sub-second offsets each;
    //    SystemTime, DateTime<Utc>, and fixed-offset zones: all of them for the seconds within ±3 of a
    //    boundary (and everywhere in the thorough tier), three rotating ones elsewhere
    let mut idx: u64 = 0;
    for centre in [0i64, TWO31, TWO32] {
        for d in -2000i64..=2000 {
            for (k, nanos) in SUBSEC.iter().enumerate() {
                idx += 1;
                if idx % sn != si {
                    continue;
                }
                let secs = centre + d;
                if ctx.thorough || d.abs() <= 3 {
                    emit_instant(ctx, secs, *nanos, &offs);
                } else {
                    let j = (d.rem_euclid(offs.len() as i64) as usize + k * 7) % offs.len();
                    let sel = [offs[j], offs[(j + 11) % offs.len()], offs[(j + 23) % offs.len()]];
                    emit_instant(ctx, secs, *nanos, &sel);
                }
            }
        }
    }

    // 1b. the same conversion reached through `PackageBuilder::with_file` (a source file's modification time): every second
    //     within ±40 of the three boundaries, with and without a sub-second part, plus a few far points
    {
        let mut k = 0u64;
        for centre in [0i64, TWO31, TWO32] {
            for d in -40i64..=40 {
                for nanos in [0u32, 500_000_000, 999_999_999] {
                    k += 1;
                    if k % sn == si { ctx.req(&format!("tsfile {} {}", centre + d, nanos)); }
                }
            }
        }
        for secs in [-86_400i64, -2_000_000_000, -1, 1_600_000_000, 5_000_000_000, 10_000_000_000] {
            k += 1;
            if k % sn == si { ctx.req(&format!("tsfile {} 0", secs)); }
        }
    }

    // 2. extreme representable values (and the first unrepresentable ones beyond them)
    if si == 0 {
        let min = DateTime::<Utc>::MIN_UTC;
        let max = DateTime::<Utc>::MAX_UTC;
        let (mins, minn) = (min.timestamp(), min.timestamp_subsec_nanos());
        let (maxs, maxn) = (max.timestamp(), max.timestamp_subsec_nanos() % NS);
        assert_eq!(DateTime::<Utc>::from_timestamp(mins, minn), Some(min));
        let mut secs_list = vec![
            i64::MIN, i64::MIN + 1, i64::MIN / 2, -(1i64 << 62), -(1i64 << 53), -(1i64 << 41), -(1i64 << 40),
            mins - 1, mins, mins + 1, mins + 86_400, maxs - 86_400, maxs - 1, maxs, maxs + 1,
            1i64 << 40, 1i64 << 41, 1i64 << 53, 1i64 << 62, i64::MAX / 2, i64::MAX - 1, i64::MAX,
            u32::MAX as i64, u32::MAX as i64 + 1, i32::MAX as i64, i32::MAX as i64 + 1, i32::MIN as i64, i32::MIN as i64 - 1,
            -1, 0, 1,
        ];
        secs_list.sort();
        secs_list.dedup();
        let ext_offs = [0, 3600, -3600, 20_700, -12_600, 50_400, -43_200, 86_399, -86_399];
        for secs in secs_list {
            let mut nanos_list = vec![0u32, 1, 500_000_000, 999_999_999, minn, maxn];
            nanos_list.sort();
            nanos_list.dedup();
            for nanos in nanos_list {
                emit_instant(ctx, secs, nanos, &ext_offs);
            }
        }
    }

    // 2b. readings inside a leap second (chrono keeps them as nanos >= 1e9 on a second that is :59), at the boundaries
    if si == 0 {
        for base in [-1i64, 59, -61, TWO31 + 51, TWO31 - 9, TWO32 - 17, TWO32 + 43, 1_483_228_799] {
            for extra in [0u32, 1, 500_000_000, 999_999_999] {
                ctx.req(&format!("tsleap utc {} {} 0", base, extra));
                for off in [3600, -3600, 19_800, -12_600] {
                    ctx.req(&format!("tsleap fix {} {} {}", base, extra, off));
                }
            }
        }
    }

    // 3. seeded instants over ±2^40 s biased to the boundaries
    let n = ctx.q(100_000u64, 2_000_000) / sn;
    for _ in 0..n {
        let secs = pick_secs(&mut ctx.rng);
        let nanos = pick_nanos(&mut ctx.rng);
        let (k, off) = pick_kind(&mut ctx.rng, &offs);
        ctx.req(&req_of(k, secs, nanos, off));
    }

    // 4. ordering: two instants a small (or no, or a random) distance apart, any mix of conversions
    let n = ctx.q(40_000u64, 600_000) / sn;
    for _ in 0..n {
        let s1 = pick_secs_inside(&mut ctx.rng);
        let n1 = pick_nanos(&mut ctx.rng);
        let (s2, n2) = match ctx.rng.below(7) {
            0 => (s1, n1),
            1 => (s1, pick_nanos(&mut ctx.rng)),
            2 => {
                // + 1 ns, carrying into the next second
                if n1 + 1 == NS { (s1 + 1, 0) } else { (s1, n1 + 1) }
            }
            3 => (s1 + ctx.rng.range(-2, 2), pick_nanos(&mut ctx.rng)),
            4 => (s1 + ctx.rng.range(-100_000, 100_000), pick_nanos(&mut ctx.rng)),
            5 => (pick_secs_inside(&mut ctx.rng), pick_nanos(&mut ctx.rng)),
            // far apart: more than 2^31 s (the distance at which serial-number style comparisons flip)
            _ => ((s1 + TWO31 + ctx.rng.range(-3, 100_000)).rem_euclid(TWO32), pick_nanos(&mut ctx.rng)),
        };
        let (k1, o1) = pick_kind(&mut ctx.rng, &offs);
        let (k2, o2) = pick_kind(&mut ctx.rng, &offs);
        ctx.req(&format!("tspair {} {} {} {} {} {} {} {}", k1, s1, n1, o1, k2, s2, n2, o2));
    }
}
