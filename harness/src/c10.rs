//! C10: after any signing history a package verifies with exactly the last signer's key.
//!
//! op `hist <kind> <blob> <ops> <ids> [gpg]`
//!   kind  built0 | built2 | file     start package: built by the real PackageBuilder (0 / 2 files) or parsed from <blob>
//!   blob  @<path>                    the start package as a file: read for `file`; WRITTEN by the harness for built0/built2
//!                                    (the driver parses it with the Lean parser)
//!   ops   `-` or comma separated     sR sP sE sC (sign_with_timestamp(.., 1_600_000_000) with the RSA-4096, passphrase
//!                                    protected RSA-3072, Ed25519, ECDSA-P256 key), c (clear_signatures), w (write + parse)
//!   ids   R=<hex>,P=..,E=..,C=..     key ids of the four keys, computed by the harness from the public key files per RFC 4880
//!                                    (SHA-1 fingerprint of the primary key packet), independently of rpm-rs and the pgp crate
//!   gpg                              additionally cross-check every fresh signature with gpgv (thorough tier)
//!
//! observation: one record for the start state and one per step, joined by `;`:
//!   `<4 verify bits R P E C>,<key ids joined by + | err>,<digests ok|err>,<fnv main header>,<fnv content>[,<gpgv ok|bad|skipped|->]`
//!   a failing step gives the record `E:<op>` and ends the history.
use crate::common::*;
use rpm::signature::pgp::{Signer, Verifier};
use std::cell::RefCell;
use std::collections::HashMap;

const KEYDIR: &str = "/repo/tests/assets/signing_keys";
const NAMES: [&str; 4] = ["rsa4096", "rsa3072_protected", "ed25519", "ecdsa_p256"];
const LETTERS: [char; 4] = ['R', 'P', 'E', 'C'];
const T: u32 = 1_600_000_000;
const OPS: [&str; 6] = ["sR", "sP", "sE", "sC", "c", "w"];

struct Keys {
    signers: Vec<Signer>,
    verifiers: Vec<Verifier>,
    /// signatures of the two RSA keys (PKCS#1 v1.5 is a function of key, data and time): made once by the real
    /// signer, re-used when the same key signs the same bytes again
    memo: HashMap<(usize, u64, usize, u32), Vec<u8>>,
    memo_ok: [bool; 4],
    gpg: HashMap<(usize, u64, u64), &'static str>,
}

thread_local! {
    static KEYS: RefCell<Option<Keys>> = const { RefCell::new(None) };
}

fn load_keys() -> Keys {
    let mut signers = Vec::new();
    let mut verifiers = Vec::new();
    for (i, n) in NAMES.iter().enumerate() {
        let sec = std::fs::read(format!("{}/secret_{}.asc", KEYDIR, n)).expect("secret key");
        let mut s = Signer::load_from_asc_bytes(&sec).expect("signer");
        if i == 1 {
            s = s.with_key_passphrase("thisisN0Tasecuredpassphrase");
        }
        signers.push(s);
        let pubk = std::fs::read(format!("{}/public_{}.asc", KEYDIR, n)).expect("public key");
        verifiers.push(Verifier::load_from_asc_bytes(&pubk).expect("verifier"));
    }
    Keys { signers, verifiers, memo: HashMap::new(), memo_ok: [true, true, false, false], gpg: HashMap::new() }
}

fn with_keys<R>(f: impl FnOnce(&mut Keys) -> R) -> R {
    KEYS.with(|k| {
        let mut k = k.borrow_mut();
        if k.is_none() {
            *k = Some(load_keys());
        }
        f(k.as_mut().unwrap())
    })
}

/// a `Signing` implementation that hands the bytes to the real signer, except that an RSA signature over bytes
/// this key already signed (same time) is taken from the memo table
#[derive(Debug)]
struct MemoSigner {
    idx: usize,
}

impl rpm::signature::Signing for MemoSigner {
    type Signature = Vec<u8>;
    fn sign(&self, mut data: impl std::io::Read, t: rpm::Timestamp) -> Result<Vec<u8>, rpm::Error> {
        let mut buf = Vec::new();
        data.read_to_end(&mut buf)?;
        with_keys(|k| {
            let key = (self.idx, fnv(&buf), buf.len(), t.0);
            if k.memo_ok[self.idx] {
                if let Some(s) = k.memo.get(&key) {
                    return Ok(s.clone());
                }
            }
            let s = k.signers[self.idx].sign(&buf[..], t)?;
            if k.memo_ok[self.idx] {
                // the first signature of a key is made twice: memoise only if the signer is a function
                if !k.memo.keys().any(|x| x.0 == self.idx) {
                    let s2 = k.signers[self.idx].sign(&buf[..], t)?;
                    if s2 != s {
                        k.memo_ok[self.idx] = false;
                        return Ok(s);
                    }
                }
                k.memo.insert(key, s.clone());
            }
            Ok(s)
        })
    }
    fn algorithm(&self) -> rpm::signature::AlgorithmType {
        with_keys(|k| k.signers[self.idx].algorithm())
    }
}

const CFG0: &str = "n=633130 v=312e30 l=4d4954 a=6e6f61726368 s=6e6f2066696c6573 now=1700000000 c=gzip:6";
const CFG2: &str = "n=6331302d74776f v=322e33 l=4d4954 a=7838365f3634 s=74776f2066696c6573 now=1700000000 r=34 c=zstd:3 \
f=2f7573722f62696e2f746f6f6c:33261:726f6f74:726f6f74:0:~:-:1600000000:7:3000:~ \
f=2f6574632f746f6f6c2e636f6e66:33188:6875676f:6875676f:1:~:-:1500000000:4:120:~";

fn build_start(kind: &str) -> Result<rpm::Package, rpm::Error> {
    let cfg = if kind == "built0" { CFG0 } else { CFG2 };
    let toks: Vec<&str> = cfg.split(' ').filter(|t| !t.is_empty()).collect();
    let r = crate::bld::builder_from(&toks).and_then(|b| b.build());
    crate::bld::cleanup();
    r
}

fn write_if_changed(path: &str, bytes: &[u8]) {
    if std::fs::read(path).map(|old| old == bytes).unwrap_or(false) {
        return;
    }
    if let Some(dir) = std::path::Path::new(path).parent() {
        let _ = std::fs::create_dir_all(dir);
    }
    let tmp = format!("{}.{}.tmp", path, std::process::id());
    std::fs::write(&tmp, bytes).expect("write start package");
    std::fs::rename(&tmp, path).expect("rename start package");
}

fn start_package(kind: &str, blob: &str) -> Option<rpm::Package> {
    let path = blob.strip_prefix('@')?;
    match kind {
        "file" => rpm::Package::parse(&mut &std::fs::read(path).ok()?[..]).ok(),
        "built0" | "built2" => {
            let p = build_start(kind).ok()?;
            let mut bytes = Vec::new();
            p.write(&mut bytes).ok()?;
            write_if_changed(path, &bytes);
            Some(p)
        }
        _ => None,
    }
}

/// the legacy tag data (raw signature packet) and which tag carries it
fn legacy_sig(p: &rpm::Package) -> Option<Vec<u8>> {
    let s = &p.metadata.signature;
    s.get_entry_data_as_binary(rpm::IndexSignatureTag::RPMSIGTAG_RSA)
        .or_else(|_| s.get_entry_data_as_binary(rpm::IndexSignatureTag::RPMSIGTAG_DSA))
        .ok()
        .map(|b| b.to_vec())
}

fn gpg_dir() -> std::path::PathBuf {
    std::path::PathBuf::from(format!("work/C10/gpg-{}", std::process::id()))
}

/// independent oracle: does GnuPG accept `sig` as a signature of key `idx` over `data`?
fn gpgv(idx: usize, data: &[u8], sig: &[u8]) -> &'static str {
    let key = (idx, fnv(data), fnv(sig));
    if let Some(r) = with_keys(|k| k.gpg.get(&key).copied()) {
        return r;
    }
    let r = (|| -> Option<&'static str> {
        use std::process::{Command, Stdio};
        let dir = gpg_dir();
        let home = dir.join("home");
        std::fs::create_dir_all(&home).ok()?;
        #[cfg(unix)]
        {
            use std::os::unix::fs::PermissionsExt;
            let _ = std::fs::set_permissions(&home, std::fs::Permissions::from_mode(0o700));
        }
        let kr = dir.join(format!("kr{}.gpg", idx));
        if !kr.exists() {
            let st = Command::new("gpg")
                .env("GNUPGHOME", &home)
                .args(["--batch", "--quiet", "--no-default-keyring", "--keyring"])
                .arg(std::fs::canonicalize(&dir).ok()?.join(format!("kr{}.gpg", idx)))
                .arg("--import")
                .arg(format!("{}/public_{}.asc", KEYDIR, NAMES[idx]))
                .stdin(Stdio::null()).stdout(Stdio::null()).stderr(Stdio::null())
                .status().ok()?;
            if !st.success() || !kr.exists() {
                return None;
            }
        }
        let d = dir.join("data.bin");
        let s = dir.join("sig.bin");
        std::fs::write(&d, data).ok()?;
        std::fs::write(&s, sig).ok()?;
        let out = Command::new("gpgv")
            .env("GNUPGHOME", &home)
            // the test keys were created after the fixed signing time 1_600_000_000: that alone is not a bad signature
            .args(["--ignore-time-conflict", "--status-fd", "1", "--keyring"])
            .arg(std::fs::canonicalize(&kr).ok()?)
            .arg(&s).arg(&d)
            .stdin(Stdio::null()).stderr(Stdio::null())
            .output().ok()?;
        let text = String::from_utf8_lossy(&out.stdout).to_string();
        if text.contains("[GNUPG:] GOODSIG") && text.contains("[GNUPG:] VALIDSIG") && out.status.success() {
            Some("ok")
        } else if text.contains("[GNUPG:] BADSIG") || text.contains("[GNUPG:] NO_PUBKEY") {
            Some("bad")
        } else {
            None
        }
    })()
    .unwrap_or("skipped");
    with_keys(|k| k.gpg.insert(key, r));
    r
}

fn header_bytes(p: &rpm::Package) -> Vec<u8> {
    // `Header::write` is not public: serialise the package and cut the main header out by the reported offsets
    let mut w = Vec::new();
    p.write(&mut w).expect("package write");
    let o = p.metadata.get_package_segment_offsets();
    w[o.header as usize..o.payload as usize].to_vec()
}

/// the record of one state; `fresh` = index of the key that made the signature in the step just taken
fn record(p: &rpm::Package, fresh: Option<usize>, gpg: bool) -> String {
    let bits: String = with_keys(|k| {
        k.verifiers.iter().map(|v| if p.verify_signature(v).is_ok() { '1' } else { '0' }).collect()
    });
    let ids = match p.signature_key_ids() {
        Ok(v) => if v.is_empty() { "none".to_string() } else { v.join("+") },
        Err(_) => "err".to_string(),
    };
    let dig = if p.verify_digests().is_ok() { "ok" } else { "err" };
    let h = header_bytes(p);
    let mut r = format!("{},{},{},{:016x},{:016x}", bits, ids, dig, fnv(&h), fnv(&p.content));
    if gpg {
        let g = match fresh {
            Some(idx) => match legacy_sig(p) {
                Some(sig) => gpgv(idx, &h, &sig),
                None => "bad",
            },
            None => "-",
        };
        r.push(',');
        r.push_str(g);
    }
    r
}

/// one step on the real package; Err = the library refused
fn apply(p: &mut rpm::Package, op: &str) -> Result<Option<usize>, ()> {
    match op {
        "c" => {
            p.clear_signatures().map_err(|_| ())?;
            // the same header through the public `SignatureHeaderBuilder`: a (junk) signature added and removed again with
            // `clear_signatures()` must leave exactly the unsigned header `Package::clear_signatures` installs
            use sha2::Digest;
            let digest = hex::encode(sha2::Sha256::digest(header_bytes(p)));
            let alt = rpm::SignatureHeaderBuilder::new()
                .set_sha256_digest(&digest)
                .add_openpgp_signature(vec![0xff, 0x00, 0x01, 0x02, 0x03])
                .clear_signatures()
                .build()
                .map_err(|_| ())?;
            if alt != p.metadata.signature { return Err(()); }
            Ok(None)
        }
        "w" => {
            let mut bytes = Vec::new();
            p.write(&mut bytes).map_err(|_| ())?;
            *p = rpm::Package::parse(&mut &bytes[..]).map_err(|_| ())?;
            Ok(None)
        }
        _ if op.len() == 2 && op.starts_with('x') => {
            // a signing attempt the signer refuses: the protected key WITHOUT its passphrase. `sign` must fail and
            // leave the package as it was (the record that follows shows the state).
            let sec = std::fs::read(format!("{}/secret_{}.asc", KEYDIR, NAMES[1])).map_err(|_| ())?;
            let locked = Signer::load_from_asc_bytes(&sec).map_err(|_| ())?;
            match p.sign_with_timestamp(locked, T) {
                Err(_) => Ok(None),
                Ok(()) => Ok(Some(1)),
            }
        }
        _ => {
            let future = op.starts_with('S');
            let idx = LETTERS.iter().position(|l| op.len() == 2 && (op.starts_with('s') || future) && op.ends_with(*l)).ok_or(())?;
            // `S<key>`: a creation time far in the future of every clock involved
            // the signer is passed by reference (`impl Signing for &T`); the refused signing above passes one by value
            let signer = MemoSigner { idx };
            p.sign_with_timestamp(&signer, if future { 4_000_000_000u32 } else { T }).map_err(|_| ())?;
            Ok(Some(idx))
        }
    }
}

fn split_ops(ops: &str) -> Vec<&str> {
    if ops == "-" { vec![] } else { ops.split(',').collect() }
}

pub fn eval(op: &str, a: &[&str]) -> Option<String> {
    if op != "hist" || a.len() < 4 {
        return None;
    }
    let gpg = a.get(4) == Some(&"gpg");
    let mut p = match start_package(a[0], a[1]) {
        Some(p) => p,
        None => return Some("start-err".into()),
    };
    let mut recs = vec![record(&p, None, gpg)];
    for o in split_ops(a[2]) {
        match apply(&mut p, o) {
            Ok(fresh) => recs.push(record(&p, fresh, gpg)),
            Err(()) => {
                recs.push(format!("E:{}", o));
                break;
            }
        }
    }
    if gpg {
        let _ = std::fs::remove_dir_all(gpg_dir());
        with_keys(|k| k.gpg.clear());
    }
    Some(recs.join(";"))
}

fn b64_decode(text: &str) -> Vec<u8> {
    let mut out = Vec::new();
    let (mut acc, mut bits) = (0u32, 0u32);
    for c in text.bytes() {
        let v = match c {
            b'A'..=b'Z' => c - b'A',
            b'a'..=b'z' => c - b'a' + 26,
            b'0'..=b'9' => c - b'0' + 52,
            b'+' => 62,
            b'/' => 63,
            _ => continue,
        } as u32;
        acc = (acc << 6) | v;
        bits += 6;
        if bits >= 8 {
            bits -= 8;
            out.push((acc >> bits) as u8);
            acc &= (1 << bits) - 1;
        }
    }
    out
}

/// RFC 4880 §12.2, computed here from the armoured public key file (NOT through rpm-rs or the pgp crate):
/// key id = low 64 bits of SHA-1(0x99 ‖ 2-byte length ‖ public-key packet body) of the primary (v4) key
fn key_id_of_public_asc(path: &str) -> Option<String> {
    use sha1::Digest;
    let text = std::fs::read_to_string(path).ok()?;
    let mut body = String::new();
    let mut in_body = false;
    for line in text.lines() {
        let line = line.trim();
        if line.starts_with("-----BEGIN") { continue; }
        if line.starts_with("-----END") { break; }
        if !in_body {
            // armour headers end with an empty line
            if line.is_empty() { in_body = true; } else if !line.contains(": ") { in_body = true; body.push_str(line); }
            continue;
        }
        if line.starts_with('=') { break; } // CRC-24 line
        body.push_str(line);
    }
    let raw = b64_decode(&body);
    let b0 = *raw.first()?;
    let (tag, len, off) = if b0 & 0x40 == 0 {
        let tag = (b0 >> 2) & 0xf;
        match b0 & 3 {
            0 => (tag, *raw.get(1)? as usize, 2),
            1 => (tag, ((*raw.get(1)? as usize) << 8) | *raw.get(2)? as usize, 3),
            2 => (tag, u32::from_be_bytes(raw.get(1..5)?.try_into().ok()?) as usize, 5),
            _ => return None,
        }
    } else {
        let l0 = *raw.get(1)? as usize;
        if l0 < 192 { (b0 & 0x3f, l0, 2) }
        else if l0 < 224 { (b0 & 0x3f, ((l0 - 192) << 8) + *raw.get(2)? as usize + 192, 3) }
        else if l0 == 255 { (b0 & 0x3f, u32::from_be_bytes(raw.get(2..6)?.try_into().ok()?) as usize, 6) }
        else { return None }
    };
    if tag != 6 { return None; }
    let pk = raw.get(off..off + len)?;
    if *pk.first()? != 4 { return None; }
    let mut h = sha1::Sha1::new();
    h.update([0x99, (len >> 8) as u8, len as u8]);
    h.update(pk);
    let fp = h.finalize();
    Some(hex::encode(&fp[12..20]))
}

/// the key ids the four keys must be reported under
fn id_table() -> String {
    LETTERS.iter().enumerate()
        .map(|(i, l)| format!("{}={}", l, key_id_of_public_asc(&format!("{}/public_{}.asc", KEYDIR, NAMES[i])).unwrap_or_else(|| "unknown".into())))
        .collect::<Vec<_>>()
        .join(",")
}

struct Walk<'a> {
    ctx: &'a mut Ctx,
    kind: String,
    blob: String,
    ids: String,
    gpg: bool,
    depth: usize,
    base: u64,
}

fn op_index(o: &str) -> u64 {
    OPS.iter().position(|x| *x == o).unwrap_or(0) as u64
}

impl Walk<'_> {
    fn line(&self, ops: &[&str]) -> String {
        let o = if ops.is_empty() { "-".to_string() } else { ops.join(",") };
        format!("hist {} {} {} {}{}", self.kind, self.blob, o, self.ids, if self.gpg { " gpg" } else { "" })
    }

    /// every node (op sequence) belongs to exactly one shard, decided by its first two ops
    fn owner(&self, ops: &[&str]) -> u64 {
        let u = match ops.len() {
            0 => 0,
            1 => op_index(ops[0]) * 6,
            _ => op_index(ops[0]) * 6 + op_index(ops[1]),
        };
        (self.base + u) % self.ctx.shard.1
    }

    /// does this shard own the node or anything below it?
    fn needed(&self, ops: &[&str]) -> bool {
        let si = self.ctx.shard.0;
        if ops.len() >= 2 {
            return self.owner(ops) == si;
        }
        if self.owner(ops) == si {
            return true;
        }
        if ops.len() + 1 > self.depth {
            return false;
        }
        OPS.iter().any(|x| {
            let mut v = ops.to_vec();
            v.push(x);
            self.needed(&v)
        })
    }

    /// depth-first over all op sequences: the state after a prefix is computed once and shared by all extensions
    fn dfs(&mut self, p: &rpm::Package, ops: &mut Vec<&'static str>, recs: &mut Vec<String>) {
        if self.owner(ops) == self.ctx.shard.0 {
            let l = self.line(ops);
            self.ctx.emit(&l, &recs.join(";"));
        }
        if ops.len() >= self.depth {
            return;
        }
        for o in OPS {
            ops.push(o);
            if self.needed(ops) {
                let mut q = p.clone();
                match apply(&mut q, o) {
                    Ok(fresh) => {
                        recs.push(record(&q, fresh, self.gpg));
                        self.dfs(&q, ops, recs);
                    }
                    Err(()) => {
                        recs.push(format!("E:{}", o));
                        if self.owner(ops) == self.ctx.shard.0 {
                            let l = self.line(ops);
                            self.ctx.emit(&l, &recs.join(";"));
                        }
                    }
                }
                recs.pop();
            }
            ops.pop();
        }
    }
}

pub fn gen(ctx: &mut Ctx) {
    let ids = id_table();
    let gpg = ctx.thorough;
    let cwd = std::env::current_dir().expect("cwd");
    let mut starts: Vec<(String, String, usize)> = Vec::new();
    for k in ["built2", "built0"] {
        starts.push((k.to_string(), format!("@{}/work/C10/{}.rpm", cwd.display(), k), ctx.q(3, 5)));
    }
    for p in crate::pkggen::asset_paths() {
        starts.push(("file".into(), format!("@{}", p.display()), ctx.q(2, 3)));
    }
    for f in ["rpm-empty-0-0.src.rpm", "rpm-empty-0-0.x86_64.rpm"] {
        starts.push(("file".into(), format!("@/repo/test_assets/fixture_packages/{}", f), ctx.q(2, 3)));
    }
    for (n, (kind, blob, depth)) in starts.into_iter().enumerate() {
        let p = match start_package(&kind, &blob) {
            Some(p) => p,
            None => {
                if n as u64 % ctx.shard.1 == ctx.shard.0 {
                    ctx.emit(&format!("hist {} {} - {}", kind, blob, ids), "start-err");
                }
                continue;
            }
        };
        // histories with a refused signing attempt in the middle, and with signatures dated in the future
        for (hi, h) in ["xP", "sE,xP", "sR,w,xP,w", "c,xP", "xP,sC", "sE,xP,c", "SE", "sR,SE,w", "SR,c,SC", "SP,w,sR"].iter().enumerate() {
            if (n + hi) as u64 % ctx.shard.1 == ctx.shard.0 && (ctx.thorough || n < 3 || hi % 3 == n % 3) {
                ctx.req(&format!("hist {} {} {} {}", kind, blob, h, ids));
            }
        }
        let first = record(&p, None, gpg);
        let mut w = Walk { ctx: &mut *ctx, kind, blob, ids: ids.clone(), gpg, depth, base: n as u64 * 37 };
        w.dfs(&p, &mut Vec::new(), &mut vec![first]);
    }
    let _ = std::fs::remove_dir_all(gpg_dir());
}
