//! C10: after any signing history a package verifies with exactly the last signer's key.
//!
//! op `hist <kind> <blob> <ops> <ids> [gpg]`
//!   kind  built0 | built2 | file     start package: built by the real PackageBuilder (0 / 2 files) or parsed from <blob>
//!   blob  @<path>                    the start package as a file: read for `file`; WRITTEN by the harness for built0/built2
//!                                    (the driver parses it with the Lean parser)
//!   ops   `-` or comma separated     sR sP sE sC (sign_with_timestamp(.., 1_600_000_000) with the RSA-4096, passphrase
//!                                    protected RSA-3072, Ed25519, ECDSA-P256 key), c (clear_signatures), w (write + parse),
//!                                    W (Package::write_file to a fresh path + Package::open of that file: the other sink /
//!                                    source kind of the same step; not in the exhaustive alphabet, generated as a family of its own)
//!   ids   R=<hex>,P=..,E=..,C=..     key ids of the four keys, computed by the harness from the public key files per RFC 4880
//!                                    (SHA-1 fingerprint of the primary key packet), independently of rpm-rs and the pgp crate
//!   gpg                              additionally cross-check every fresh signature with gpgv (thorough tier)
//!
//!         further step forms (the signing side with its failure and panic paths):
//!           s<K>@<kind>:<secs>:<nanos>  sign_with_timestamp with the instant as a u32 | sys (SystemTime) | utc (DateTime<Utc>) |
//!                                       fix (DateTime<FixedOffset +05:45>); out of 0..2^32 the conversion is unwrapped: a panic
//!           n<K>                        Package::sign(&signer) (= sign_with_timestamp(.., Timestamp::now()))
//!           xP xF [@..]                 signers that refuse: the protected key without its passphrase (SignError), a foreign
//!                                       `Signing` implementation answering Err(KeyNotFoundError)
//!           r<hex>[@..]                 a foreign `Signing` implementation answering Ok(<these bytes>)
//!   kinds latin1 | noncanon | swapped | extratag: the built2 package with a main header that is valid but NOT what the
//!         library itself would lay out (a non-UTF-8 byte in a string; slack bytes at the end of the store; the data of
//!         two entries swapped in the store; an extra entry with a tag below 1000), with the digest of the edited header recorded in the signature header
//!
//! observation: one record for the start state and one per step, joined by `;`:
//!   `<4 verify bits R P E C>,<key ids joined by + | err>,<digests ok|err>,<fnv main header>,<fnv content>,<res>[,<gpgv ok|bad|skipped|->]`
//!   res: `-` (start, clear, write+parse) | `t<creation time of the fresh signature>` (`tnow`: inside the window of the
//!   `sign` call) | `e:<error class>` (the attempt was refused; the record shows the state it left)
//!   a failing step gives the record `E:<op>`, a panicking one `P:<op>`; both end the history.
//!
//! further ops (ties of the scraped tables and of the signer's configuration, see lean/RpmVerif/Model/SignE.lean):
//!   `sgbuild <alg>`   SignatureHeaderBuilder::build over a hand-made v4 signature packet of public-key algorithm <alg>
//!                     → `ok <legacy tag>` | `err:<class>`
//!   `sgnew <alg>`     pgp::Signer::new over a key of that algorithm → `ok <AlgorithmType>` | `err:<class>` | `unparsable`
//!   `vfload <alg>`    pgp::Verifier::load_from_asc over an armoured key of that algorithm → the same
//!   `sgcfg <alg> <t> <keyid> <fp>`  <pgp::Signer as Signing>::sign with a key of that algorithm (key id / fingerprint given,
//!                     the secret-key operation faked) at Timestamp(t); the packet is read back:
//!                     `v=<version> typ=<type> alg=<pub alg> hash=<hash alg> hashed=<sub-packet types> unhashed=<..> created=<secs> issuers=<hex,..> fps=<hex,..>`
//!   `sgcfgk <K> <t>`  the same with the real key K (R P E C): `… issuers= fps=` as above
//!   `tsopt <secs> <nsecs>`  chrono `Utc.timestamp_opt(secs, nsecs)`: `single <secs> <nsecs>` | `none`
use crate::common::*;
use rpm::signature::pgp::{Signer, Verifier};
use std::cell::RefCell;
use std::collections::HashMap;

const KEYDIR: &str = "/repo/tests/assets/signing_keys";
const NAMES: [&str; 4] = ["rsa4096", "rsa3072_protected", "ed25519", "ecdsa_p256"];
const LETTERS: [char; 4] = ['R', 'P', 'E', 'C'];
const T: u32 = 1_600_000_000;
const OPS: [&str; 6] = ["sR", "sP", "sE", "sC", "c", "w"];

struct Keys {
    signers: Vec<Signer>,
    verifiers: Vec<Verifier>,
    /// signatures of the two RSA keys (PKCS#1 v1.5 is a function of key, data and time): made once by the real
    /// signer, re-used when the same key signs the same bytes again
    memo: HashMap<(usize, u64, usize, u32), Vec<u8>>,
    memo_ok: [bool; 4],
    gpg: HashMap<(usize, u64, u64), &'static str>,
}

thread_local! {
    static KEYS: RefCell<Option<Keys>> = const { RefCell::new(None) };
}

fn load_keys() -> Keys {
    let mut signers = Vec::new();
    let mut verifiers = Vec::new();
    for (i, n) in NAMES.iter().enumerate() {
        let sec = std::fs::read(format!("{}/secret_{}.asc", KEYDIR, n)).expect("secret key");
        let mut s = Signer::load_from_asc_bytes(&sec).expect("signer");
        if i == 1 {
            s = s.with_key_passphrase("thisisN0Tasecuredpassphrase");
        }
        signers.push(s);
        let pubk = std::fs::read(format!("{}/public_{}.asc", KEYDIR, n)).expect("public key");
        verifiers.push(Verifier::load_from_asc_bytes(&pubk).expect("verifier"));
    }
    Keys { signers, verifiers, memo: HashMap::new(), memo_ok: [true, true, false, false], gpg: HashMap::new() }
}

fn with_keys<R>(f: impl FnOnce(&mut Keys) -> R) -> R {
    KEYS.with(|k| {
        let mut k = k.borrow_mut();
        if k.is_none() {
            *k = Some(load_keys());
        }
        f(k.as_mut().unwrap())
    })
}

/// a `Signing` implementation that hands the bytes to the real signer, except that an RSA signature over bytes
/// this key already signed (same time) is taken from the memo table
#[derive(Debug)]
struct MemoSigner {
    idx: usize,
}

impl rpm::signature::Signing for MemoSigner {
    type Signature = Vec<u8>;
    fn sign(&self, mut data: impl std::io::Read, t: rpm::Timestamp) -> Result<Vec<u8>, rpm::Error> {
        let mut buf = Vec::new();
        data.read_to_end(&mut buf)?;
        with_keys(|k| {
            let key = (self.idx, fnv(&buf), buf.len(), t.0);
            if k.memo_ok[self.idx] {
                if let Some(s) = k.memo.get(&key) {
                    return Ok(s.clone());
                }
            }
            let s = k.signers[self.idx].sign(&buf[..], t)?;
            if k.memo_ok[self.idx] {
                // the first signature of a key is made twice: memoise only if the signer is a function
                if !k.memo.keys().any(|x| x.0 == self.idx) {
                    let s2 = k.signers[self.idx].sign(&buf[..], t)?;
                    if s2 != s {
                        k.memo_ok[self.idx] = false;
                        return Ok(s);
                    }
                }
                k.memo.insert(key, s.clone());
            }
            Ok(s)
        })
    }
    fn algorithm(&self) -> rpm::signature::AlgorithmType {
        with_keys(|k| k.signers[self.idx].algorithm())
    }
}

const CFG0: &str = "n=633130 v=312e30 l=4d4954 a=6e6f61726368 s=6e6f2066696c6573 now=1700000000 c=gzip:6";
const CFG2: &str = "n=6331302d74776f v=322e33 l=4d4954 a=7838365f3634 s=74776f2066696c6573 now=1700000000 r=34 c=zstd:3 \
f=2f7573722f62696e2f746f6f6c:33261:726f6f74:726f6f74:0:~:-:1600000000:7:3000:~ \
f=2f6574632f746f6f6c2e636f6e66:33188:6875676f:6875676f:1:~:-:1500000000:4:120:~";

fn build_start(kind: &str) -> Result<rpm::Package, rpm::Error> {
    let cfg = if kind == "built0" { CFG0 } else { CFG2 };
    let toks: Vec<&str> = cfg.split(' ').filter(|t| !t.is_empty()).collect();
    let r = crate::bld::builder_from(&toks).and_then(|b| b.build());
    crate::bld::cleanup();
    r
}

fn write_if_changed(path: &str, bytes: &[u8]) {
    if std::fs::read(path).map(|old| old == bytes).unwrap_or(false) {
        return;
    }
    if let Some(dir) = std::path::Path::new(path).parent() {
        let _ = std::fs::create_dir_all(dir);
    }
    let tmp = format!("{}.{}.tmp", path, std::process::id());
    std::fs::write(&tmp, bytes).expect("write start package");
    std::fs::rename(&tmp, path).expect("rename start package");
}

/// the main header of serialised package `bytes`, taken apart (index entries as written, store), and where it sits
pub fn split_main_header(bytes: &[u8]) -> Option<(usize, usize, crate::pkggen::GHeader)> {
    let p = rpm::Package::parse(&mut &bytes[..]).ok()?;
    let o = p.metadata.get_package_segment_offsets();
    let (a, b) = (o.header as usize, o.payload as usize);
    let h = bytes.get(a..b)?;
    let n = u32::from_be_bytes(h.get(8..12)?.try_into().ok()?) as usize;
    let dl = u32::from_be_bytes(h.get(12..16)?.try_into().ok()?) as usize;
    if h.len() != 16 + 16 * n + dl {
        return None;
    }
    let mut g = crate::pkggen::GHeader::new();
    g.magic = [h[0], h[1], h[2]];
    g.version = h[3];
    g.reserved = [h[4], h[5], h[6], h[7]];
    for i in 0..n {
        let e = &h[16 + 16 * i..32 + 16 * i];
        let w = |k: usize| u32::from_be_bytes(e[4 * k..4 * k + 4].try_into().unwrap());
        g.entries.push(crate::pkggen::GEntry { tag: w(0), ty: w(1), off: w(2) as i32, cnt: w(3) });
    }
    g.store = h[16 + 16 * n..].to_vec();
    Some((a, b, g))
}

/// start packages whose main header is valid but not laid out the way the library itself would lay it out: derived from
/// the built2 package by editing the serialised main header and recording the digest of the edited header
pub fn variant_start(kind: &str) -> Option<Vec<u8>> {
    let base = build_start("built2").ok()?;
    let mut bytes = Vec::new();
    base.write(&mut bytes).ok()?;
    let (a, b, mut g) = split_main_header(&bytes)?;
    match kind {
        "latin1" => {
            // one byte of the summary ("two files") becomes 0xE9: not UTF-8, `from_utf8_lossy` would rewrite it
            let at = g.store.windows(9).position(|w| w == b"two files")?;
            g.store[at + 1] = 0xE9;
        }
        "noncanon" => {
            // three slack bytes after the last datum: the declared store is larger than needed
            g.store.extend_from_slice(&[0, 0, 0]);
        }
        "swapped" => {
            // the data of NAME (1000) and VERSION (1001) — two STRING entries next to each other in the store — change places
            let i = g.entries.iter().position(|e| e.tag == 1000 && e.ty == 6)?;
            let j = g.entries.iter().position(|e| e.tag == 1001 && e.ty == 6)?;
            let (oi, oj) = (g.entries[i].off as usize, g.entries[j].off as usize);
            let li = g.store[oi..].iter().position(|x| *x == 0)? + 1;
            let lj = g.store[oj..].iter().position(|x| *x == 0)? + 1;
            if oi + li != oj {
                return None;
            }
            let (si, sj) = (g.store[oi..oi + li].to_vec(), g.store[oj..oj + lj].to_vec());
            g.store[oi..oi + lj].copy_from_slice(&sj);
            g.store[oi + lj..oi + lj + li].copy_from_slice(&si);
            g.entries[j].off = oi as i32;
            g.entries[i].off = (oi + lj) as i32;
        }
        "extratag" => {
            // an entry under a tag below 1000 (269, RPMTAG_SHA1HEADER: what rpm merges in from the signature header when a
            // package is installed), placed where tag order puts it; its data goes to the end of the store
            let off = g.store.len() as i32;
            g.store.extend_from_slice(b"da39a3ee5e6b4b0d3255bfef95601890afd80709\0");
            let at = g.entries.iter().position(|e| e.tag > 269 && e.tag != 63).unwrap_or(g.entries.len());
            g.entries.insert(at, crate::pkggen::GEntry { tag: 269, ty: 6, off, cnt: 1 });
        }
        _ => return None,
    }
    // the signature header of a built package records one thing, the SHA-256 of the main header as hex text: put the
    // digest of the EDITED header there (computed here — the library under test takes no part in making the start package)
    use sha2::Digest;
    let old_digest = hex::encode(sha2::Sha256::digest(&bytes[a..b]));
    let new_header = g.bytes();
    let new_digest = hex::encode(sha2::Sha256::digest(&new_header));
    let at = bytes[..a].windows(old_digest.len()).position(|w| w == old_digest.as_bytes())?;
    let mut out = bytes[..a].to_vec();
    out[at..at + new_digest.len()].copy_from_slice(new_digest.as_bytes());
    out.extend(new_header);
    out.extend_from_slice(&bytes[b..]);
    Some(out)
}

pub const VARIANT_KINDS: [&str; 4] = ["latin1", "noncanon", "swapped", "extratag"];

fn start_package(kind: &str, blob: &str) -> Option<rpm::Package> {
    let path = blob.strip_prefix('@')?;
    match kind {
        "file" => rpm::Package::parse(&mut &std::fs::read(path).ok()?[..]).ok(),
        "built0" | "built2" => {
            let p = build_start(kind).ok()?;
            let mut bytes = Vec::new();
            p.write(&mut bytes).ok()?;
            write_if_changed(path, &bytes);
            Some(p)
        }
        k if VARIANT_KINDS.contains(&k) => {
            let bytes = variant_start(k)?;
            write_if_changed(path, &bytes);
            rpm::Package::parse(&mut &bytes[..]).ok()
        }
        _ => None,
    }
}

/// the legacy tag data (raw signature packet) and which tag carries it
fn legacy_sig(p: &rpm::Package) -> Option<Vec<u8>> {
    let s = &p.metadata.signature;
    s.get_entry_data_as_binary(rpm::IndexSignatureTag::RPMSIGTAG_RSA)
        .or_else(|_| s.get_entry_data_as_binary(rpm::IndexSignatureTag::RPMSIGTAG_DSA))
        .ok()
        .map(|b| b.to_vec())
}

fn gpg_dir() -> std::path::PathBuf {
    std::path::PathBuf::from(format!("work/C10/gpg-{}", std::process::id()))
}

/// independent oracle: does GnuPG accept `sig` as a signature of key `idx` over `data`?
fn gpgv(idx: usize, data: &[u8], sig: &[u8]) -> &'static str {
    let key = (idx, fnv(data), fnv(sig));
    if let Some(r) = with_keys(|k| k.gpg.get(&key).copied()) {
        return r;
    }
    let r = (|| -> Option<&'static str> {
        use std::process::{Command, Stdio};
        let dir = gpg_dir();
        let home = dir.join("home");
        std::fs::create_dir_all(&home).ok()?;
        #[cfg(unix)]
        {
            use std::os::unix::fs::PermissionsExt;
            let _ = std::fs::set_permissions(&home, std::fs::Permissions::from_mode(0o700));
        }
        let kr = dir.join(format!("kr{}.gpg", idx));
        if !kr.exists() {
            let st = Command::new("gpg")
                .env("GNUPGHOME", &home)
                .args(["--batch", "--quiet", "--no-default-keyring", "--keyring"])
                .arg(std::fs::canonicalize(&dir).ok()?.join(format!("kr{}.gpg", idx)))
                .arg("--import")
                .arg(format!("{}/public_{}.asc", KEYDIR, NAMES[idx]))
                .stdin(Stdio::null()).stdout(Stdio::null()).stderr(Stdio::null())
                .status().ok()?;
            if !st.success() || !kr.exists() {
                return None;
            }
        }
        let d = dir.join("data.bin");
        let s = dir.join("sig.bin");
        std::fs::write(&d, data).ok()?;
        std::fs::write(&s, sig).ok()?;
        let out = Command::new("gpgv")
            .env("GNUPGHOME", &home)
            // the test keys were created after the fixed signing time 1_600_000_000: that alone is not a bad signature
            .args(["--ignore-time-conflict", "--status-fd", "1", "--keyring"])
            .arg(std::fs::canonicalize(&kr).ok()?)
            .arg(&s).arg(&d)
            .stdin(Stdio::null()).stderr(Stdio::null())
            .output().ok()?;
        let text = String::from_utf8_lossy(&out.stdout).to_string();
        if text.contains("[GNUPG:] GOODSIG") && text.contains("[GNUPG:] VALIDSIG") && out.status.success() {
            Some("ok")
        } else if text.contains("[GNUPG:] BADSIG") || text.contains("[GNUPG:] NO_PUBKEY") {
            Some("bad")
        } else {
            None
        }
    })()
    .unwrap_or("skipped");
    with_keys(|k| k.gpg.insert(key, r));
    r
}

fn header_bytes(p: &rpm::Package) -> Vec<u8> {
    // `Header::write` is not public: serialise the package and cut the main header out by the reported offsets
    let mut w = Vec::new();
    p.write(&mut w).expect("package write");
    let o = p.metadata.get_package_segment_offsets();
    w[o.header as usize..o.payload as usize].to_vec()
}

/// the record of one state; `fresh` = index of the key that made the signature in the step just taken; `res` = what the
/// step answered (see the module comment)
fn record(p: &rpm::Package, fresh: Option<usize>, gpg: bool, res: &str) -> String {
    let bits: String = with_keys(|k| {
        k.verifiers.iter().map(|v| if p.verify_signature(v).is_ok() { '1' } else { '0' }).collect()
    });
    let ids = match p.signature_key_ids() {
        Ok(v) => if v.is_empty() { "none".to_string() } else { v.join("+") },
        Err(_) => "err".to_string(),
    };
    let dig = if p.verify_digests().is_ok() { "ok" } else { "err" };
    let h = header_bytes(p);
    let mut r = format!("{},{},{},{:016x},{:016x},{}", bits, ids, dig, fnv(&h), fnv(&p.content), res);
    if gpg {
        let g = match fresh {
            Some(idx) => match legacy_sig(p) {
                Some(sig) => gpgv(idx, &h, &sig),
                None => "bad",
            },
            None => "-",
        };
        r.push(',');
        r.push_str(g);
    }
    r
}

/// any `Signing` implementation the histories hand to `sign` / `sign_with_timestamp`
#[derive(Debug)]
enum AnySigner {
    /// the real signer of key `idx` (RSA signatures memoised)
    Key(MemoSigner),
    /// the protected key WITHOUT its passphrase: the real `pgp::Signer` answers `Err(SignError)`
    Locked(Box<Signer>),
    /// a foreign implementation of the trait that refuses
    Failing,
    /// a foreign implementation of the trait that answers with bytes of its own
    Raw(Vec<u8>),
}

impl rpm::signature::Signing for AnySigner {
    type Signature = Vec<u8>;
    fn sign(&self, data: impl std::io::Read, t: rpm::Timestamp) -> Result<Vec<u8>, rpm::Error> {
        match self {
            AnySigner::Key(m) => m.sign(data, t),
            AnySigner::Locked(s) => s.sign(data, t),
            AnySigner::Failing => Err(rpm::Error::KeyNotFoundError { key_ref: "harness".into() }),
            AnySigner::Raw(b) => Ok(b.clone()),
        }
    }
    fn algorithm(&self) -> rpm::signature::AlgorithmType {
        match self {
            AnySigner::Key(m) => m.algorithm(),
            AnySigner::Locked(s) => s.algorithm(),
            _ => rpm::signature::AlgorithmType::RSA,
        }
    }
}

/// the error classes a signing attempt can end in
fn err_class(e: &rpm::Error) -> &'static str {
    match e {
        rpm::Error::SignError(_) => "SignError",
        rpm::Error::NoSignatureFound => "NoSignatureFound",
        rpm::Error::UnsupportedPGPKeyType(_) => "UnsupportedPGPKeyType",
        rpm::Error::KeyNotFoundError { .. } => "KeyNotFoundError",
        _ => "other",
    }
}

/// the timestamp argument of a signing step
#[derive(Clone, Copy)]
enum Ts {
    U32(u32),
    Sys(i64, u32),
    Utc(i64, u32),
    Fix(i64, u32),
    /// `Package::sign`: the wall clock
    Now,
}

fn system_time(secs: i64, nanos: u32) -> Option<std::time::SystemTime> {
    use std::time::{Duration, SystemTime};
    const NS: u32 = 1_000_000_000;
    if secs >= 0 {
        SystemTime::UNIX_EPOCH.checked_add(Duration::new(secs as u64, nanos))
    } else if nanos == 0 {
        SystemTime::UNIX_EPOCH.checked_sub(Duration::new(secs.unsigned_abs(), 0))
    } else {
        SystemTime::UNIX_EPOCH.checked_sub(Duration::new(secs.unsigned_abs() - 1, NS - nanos))
    }
}

fn parse_ts(s: &str) -> Option<Ts> {
    let f: Vec<&str> = s.split(':').collect();
    if f.len() != 3 {
        return None;
    }
    let secs: i64 = f[1].parse().ok()?;
    let nanos: u32 = f[2].parse().ok()?;
    if nanos >= 1_000_000_000 {
        return None;
    }
    match f[0] {
        "u32" if nanos == 0 => Some(Ts::U32(u32::try_from(secs).ok()?)),
        "sys" => Some(Ts::Sys(secs, nanos)),
        "utc" => Some(Ts::Utc(secs, nanos)),
        "fix" => Some(Ts::Fix(secs, nanos)),
        _ => None,
    }
}

/// a parsed signing step
struct SignStep {
    signer: AnySigner,
    /// index of the key when the signer is a usable key
    key: Option<usize>,
    ts: Ts,
}

fn parse_sign_step(op: &str) -> Option<SignStep> {
    let (head, ts) = match op.split_once('@') {
        Some((h, t)) => (h, Some(parse_ts(t)?)),
        None => (op, None),
    };
    let key_of = |c: char| LETTERS.iter().position(|l| *l == c);
    let mut ch = head.chars();
    let verb = ch.next()?;
    let rest: String = ch.collect();
    match verb {
        's' | 'S' | 'n' => {
            let mut rc = rest.chars();
            let idx = key_of(rc.next()?)?;
            if rc.next().is_some() {
                return None;
            }
            let ts = match (verb, ts) {
                ('s', None) => Ts::U32(T),
                ('s', Some(t)) => t,
                // `S<key>`: a creation time far in the future of every clock involved
                ('S', None) => Ts::U32(4_000_000_000),
                ('n', None) => Ts::Now,
                _ => return None,
            };
            Some(SignStep { signer: AnySigner::Key(MemoSigner { idx }), key: Some(idx), ts })
        }
        'x' => {
            let signer = match rest.as_str() {
                "P" => {
                    // the protected key WITHOUT its passphrase
                    let sec = std::fs::read(format!("{}/secret_{}.asc", KEYDIR, NAMES[1])).ok()?;
                    AnySigner::Locked(Box::new(Signer::load_from_asc_bytes(&sec).ok()?))
                }
                "F" => AnySigner::Failing,
                _ => return None,
            };
            Some(SignStep { signer, key: None, ts: ts.unwrap_or(Ts::U32(T)) })
        }
        'r' => {
            let raw = if rest == "-" { vec![] } else { hex::decode(&rest).ok()? };
            Some(SignStep { signer: AnySigner::Raw(raw), key: None, ts: ts.unwrap_or(Ts::U32(T)) })
        }
        _ => None,
    }
}

fn now_secs() -> i64 {
    std::time::SystemTime::now().duration_since(std::time::UNIX_EPOCH).map(|d| d.as_secs() as i64).unwrap_or(-1)
}

/// creation time of the signature in the legacy tag, read with the pgp crate
fn created_of(p: &rpm::Package) -> Option<i64> {
    let sig = legacy_sig(p)?;
    let s = pgp::packet::PacketParser::new(&sig[..]).find_map(|x| match x {
        Ok(pgp::packet::Packet::Signature(s)) => Some(s),
        _ => None,
    })?;
    s.created().map(|d| d.timestamp())
}

/// what one step did
enum Step {
    /// the call returned (Ok or a refusal): `fresh` = key that made a new signature, `res` = the record's last column
    Done { fresh: Option<usize>, res: String },
    /// clear / write + parse failed
    Failed,
    Panicked,
    /// the instant cannot be expressed in the requested type on this platform
    Unrepresentable,
}

/// one step on the real package
fn apply(p: &mut rpm::Package, op: &str) -> Step {
    use std::panic::AssertUnwindSafe;
    match op {
        "c" => match guarded(AssertUnwindSafe(|| -> Result<(), rpm::Error> {
            p.clear_signatures()?;
            // the same header through the public `SignatureHeaderBuilder`: a (junk) signature added and removed again with
            // `clear_signatures()` must leave exactly the unsigned header `Package::clear_signatures` installs
            use sha2::Digest;
            let digest = hex::encode(sha2::Sha256::digest(header_bytes(p)));
            let alt = rpm::SignatureHeaderBuilder::new()
                .set_sha256_digest(&digest)
                .add_openpgp_signature(vec![0xff, 0x00, 0x01, 0x02, 0x03])
                .clear_signatures()
                .build()?;
            if alt != p.metadata.signature {
                return Err(rpm::Error::NoSignatureFound);
            }
            Ok(())
        })) {
            Ok(Ok(())) => Step::Done { fresh: None, res: "-".into() },
            Ok(Err(_)) => Step::Failed,
            Err(_) => Step::Panicked,
        },
        "w" => {
            let r = guarded(AssertUnwindSafe(|| -> Result<rpm::Package, rpm::Error> {
                let mut bytes = Vec::new();
                p.write(&mut bytes)?;
                rpm::Package::parse(&mut &bytes[..])
            }));
            match r {
                Ok(Ok(q)) => {
                    *p = q;
                    Step::Done { fresh: None, res: "-".into() }
                }
                Ok(Err(_)) => Step::Failed,
                Err(_) => Step::Panicked,
            }
        }
        "W" => {
            // the same step through the file system: `write_file` (BufWriter<File>) then `Package::open` (BufReader<File>)
            static N: std::sync::atomic::AtomicU64 = std::sync::atomic::AtomicU64::new(0);
            let path = std::env::temp_dir().join(format!("rpmverif-c10W-{}-{}.rpm", std::process::id(), N.fetch_add(1, std::sync::atomic::Ordering::Relaxed)));
            let r = guarded(AssertUnwindSafe(|| -> Result<rpm::Package, rpm::Error> {
                p.write_file(&path)?;
                rpm::Package::open(&path)
            }));
            let _ = std::fs::remove_file(&path);
            match r {
                Ok(Ok(q)) => {
                    *p = q;
                    Step::Done { fresh: None, res: "-".into() }
                }
                Ok(Err(_)) => Step::Failed,
                Err(_) => Step::Panicked,
            }
        }
        _ => {
            let st = match parse_sign_step(op) {
                Some(st) => st,
                None => return Step::Failed,
            };
            let SignStep { signer, key, ts } = st;
            let t0 = now_secs();
            let r: Result<Result<(), rpm::Error>, String> = match ts {
                Ts::U32(n) => guarded(AssertUnwindSafe(|| p.sign_with_timestamp(signer, n))),
                Ts::Sys(s, n) => match system_time(s, n) {
                    Some(t) => guarded(AssertUnwindSafe(|| p.sign_with_timestamp(signer, t))),
                    None => return Step::Unrepresentable,
                },
                Ts::Utc(s, n) => match chrono::DateTime::<chrono::Utc>::from_timestamp(s, n) {
                    Some(t) => guarded(AssertUnwindSafe(|| p.sign_with_timestamp(signer, t))),
                    None => return Step::Unrepresentable,
                },
                Ts::Fix(s, n) => match (chrono::DateTime::<chrono::Utc>::from_timestamp(s, n), chrono::FixedOffset::east_opt(20_700)) {
                    (Some(t), Some(z)) => {
                        let t: chrono::DateTime<chrono::FixedOffset> = t.with_timezone(&z);
                        guarded(AssertUnwindSafe(|| p.sign_with_timestamp(signer, t)))
                    }
                    _ => return Step::Unrepresentable,
                },
                // `Package::sign`, handed a REFERENCE to the signer (`impl Signing for &T`)
                Ts::Now => guarded(AssertUnwindSafe(|| p.sign(&signer))),
            };
            let t1 = now_secs();
            match r {
                Err(_) => Step::Panicked,
                Ok(Err(e)) => Step::Done { fresh: None, res: format!("e:{}", err_class(&e)) },
                Ok(Ok(())) => {
                    let res = match (created_of(p), ts) {
                        (Some(c), Ts::Now) if t0 <= c && c <= t1 => "tnow".to_string(),
                        (Some(c), _) => format!("t{}", c),
                        (None, _) => "t?".to_string(),
                    };
                    Step::Done { fresh: key, res }
                }
            }
        }
    }
}

fn split_ops(ops: &str) -> Vec<&str> {
    if ops == "-" { vec![] } else { ops.split(',').collect() }
}

pub fn eval(op: &str, a: &[&str]) -> Option<String> {
    match op {
        "sgbuild" if a.len() == 1 => return Some(sgbuild(a[0].parse().ok()?)),
        "sgnew" if a.len() == 1 => return Some(sgnew(a[0].parse().ok()?)),
        "vfload" if a.len() == 1 => return Some(vfload(a[0].parse().ok()?)),
        "sgcfg" if a.len() == 4 => return Some(sgcfg(a[0].parse().ok()?, a[1].parse().ok()?)),
        "sgcfgk" if a.len() == 4 => return Some(sgcfgk(a[0], a[1].parse().ok()?)),
        "tsopt" if a.len() == 2 => return Some(tsopt(a[0].parse().ok()?, a[1].parse().ok()?)),
        _ => {}
    }
    if op != "hist" || a.len() < 4 {
        return None;
    }
    let gpg = a.get(4) == Some(&"gpg");
    let mut p = match start_package(a[0], a[1]) {
        Some(p) => p,
        None => return Some("start-err".into()),
    };
    let mut recs = vec![record(&p, None, gpg, "-")];
    for o in split_ops(a[2]) {
        match apply(&mut p, o) {
            Step::Done { fresh, res } => recs.push(record(&p, fresh, gpg, &res)),
            Step::Failed => {
                recs.push(format!("E:{}", o));
                break;
            }
            Step::Panicked => {
                recs.push(format!("P:{}", o));
                break;
            }
            Step::Unrepresentable => {
                recs.push(format!("U:{}", o));
                break;
            }
        }
    }
    if gpg {
        let _ = std::fs::remove_dir_all(gpg_dir());
        with_keys(|k| k.gpg.clear());
    }
    Some(recs.join(";"))
}


/* ---------------------------------------------------------------------------------------------
 * the algorithm tables and the signer's configuration (ops sgbuild, sgnew, vfload, sgcfg, sgcfgk, tsopt)
 * ------------------------------------------------------------------------------------------- */

fn mpi(bits: u16, bytes: &[u8]) -> Vec<u8> {
    let mut v = bits.to_be_bytes().to_vec();
    v.extend_from_slice(bytes);
    v
}

/// signature material in the shape the pgp crate's packet reader expects for the algorithm
fn sig_material(alg: u8) -> Vec<u8> {
    match alg {
        1 | 3 | 100..=110 => mpi(9, &[1, 2]),
        17 | 19 | 22 => {
            let mut v = mpi(9, &[1, 2]);
            v.extend(mpi(9, &[1, 3]));
            v
        }
        27 => vec![7u8; 64],
        _ => vec![],
    }
}

/// a hand-made v4 signature packet (binary document, SHA-256, no sub-packets) of public-key algorithm `alg`
pub fn crafted_sig_packet(alg: u8) -> Vec<u8> {
    let mut body = vec![4u8, 0, alg, 8, 0, 0, 0, 0, 0xab, 0xcd];
    body.extend(sig_material(alg));
    let mut p = vec![0xC2u8, body.len() as u8];
    p.extend(body);
    p
}

fn sgbuild(alg: u8) -> String {
    let r = rpm::SignatureHeaderBuilder::new().set_sha256_digest("00").add_openpgp_signature(crafted_sig_packet(alg)).build();
    match r {
        Ok(h) => {
            let rsa = h.get_entry_data_as_binary(rpm::IndexSignatureTag::RPMSIGTAG_RSA).is_ok();
            let dsa = h.get_entry_data_as_binary(rpm::IndexSignatureTag::RPMSIGTAG_DSA).is_ok();
            let n = h.get_entry_data_as_string_array(rpm::IndexSignatureTag::RPMSIGTAG_OPENPGP).map(|v| v.len()).unwrap_or(0);
            match (rsa, dsa, n) {
                (true, false, 1) => format!("ok {}", rpm::IndexSignatureTag::RPMSIGTAG_RSA as u32),
                (false, true, 1) => format!("ok {}", rpm::IndexSignatureTag::RPMSIGTAG_DSA as u32),
                _ => "ok ?".into(),
            }
        }
        Err(e) => format!("err:{}", err_class(&e)),
    }
}

/// the body of the primary key packet of one of the repo's public test keys
fn real_key_body(name: &str) -> Option<Vec<u8>> {
    use pgp::composed::Deserializable;
    use pgp::ser::Serialize;
    let t = std::fs::read_to_string(format!("{}/public_{}.asc", KEYDIR, name)).ok()?;
    let (k, _) = pgp::SignedPublicKey::from_string(&t).ok()?;
    k.primary_key.to_bytes().ok()
}

/// the body of a v4 public-key packet of algorithm `alg`, with key material in the shape the pgp crate's reader expects
/// (real material of the test keys where the reader validates it)
pub fn key_body(alg: u8) -> Option<Vec<u8>> {
    let with = |b: Option<Vec<u8>>| {
        b.map(|mut b| {
            b[5] = alg;
            b
        })
    };
    let head = |alg: u8| vec![4u8, 0x5f, 0x5e, 0x10, 0x00, alg];
    match alg {
        1 | 2 | 3 => with(real_key_body("rsa4096")),
        19 => with(real_key_body("ecdsa_p256")),
        22 => with(real_key_body("ed25519")),
        27 => {
            let b = real_key_body("ed25519")?;
            let mut v = b[..6].to_vec();
            v[5] = 27;
            v.extend_from_slice(&b[b.len() - 32..]);
            Some(v)
        }
        25 => {
            let mut v = head(alg);
            v.extend([9u8; 32]);
            Some(v)
        }
        16 | 20 => {
            let mut v = head(alg);
            for _ in 0..3 {
                v.extend(mpi(9, &[1, 5]));
            }
            Some(v)
        }
        17 => {
            let mut v = head(alg);
            for _ in 0..4 {
                v.extend(mpi(9, &[1, 5]));
            }
            Some(v)
        }
        18 => {
            // ECDH over Curve25519: OID, point, KDF parameters
            let mut v = head(alg);
            v.extend([10u8, 0x2b, 0x06, 0x01, 0x04, 0x01, 0x97, 0x55, 0x01, 0x05, 0x01]);
            let b = real_key_body("ed25519")?;
            let mut pt = vec![0x40u8];
            pt.extend_from_slice(&b[b.len() - 32..]);
            v.extend(mpi(263, &pt));
            v.extend([3u8, 1, 8, 7]);
            Some(v)
        }
        _ => {
            let mut v = head(alg);
            v.extend([1u8, 2, 3, 4, 5, 6, 7, 8]);
            Some(v)
        }
    }
}

fn new_packet(tag: u8, body: &[u8]) -> Vec<u8> {
    let mut p = vec![0xC0 | tag, 255];
    p.extend((body.len() as u32).to_be_bytes());
    p.extend_from_slice(body);
    p
}

fn alg_type_name(a: rpm::signature::AlgorithmType) -> &'static str {
    match a {
        rpm::signature::AlgorithmType::RSA => "RSA",
        rpm::signature::AlgorithmType::ECDSA => "ECDSA",
        rpm::signature::AlgorithmType::EdDSA => "EdDSA",
    }
}

/// a "secret key" that is a public key packet plus a secret-key operation that answers with fixed material: everything
/// `pgp::Signer` does itself (configuration, sub-packets, serialisation) runs for real, the cryptography does not
#[derive(Debug, Clone)]
struct FakeSecret(pgp::packet::PublicKey);

impl pgp::types::PublicKeyTrait for FakeSecret {
    fn version(&self) -> pgp::types::KeyVersion { self.0.version() }
    fn fingerprint(&self) -> pgp::types::Fingerprint { self.0.fingerprint() }
    fn key_id(&self) -> pgp::types::KeyId { self.0.key_id() }
    fn algorithm(&self) -> pgp::crypto::public_key::PublicKeyAlgorithm { self.0.algorithm() }
    fn created_at(&self) -> &chrono::DateTime<chrono::Utc> { self.0.created_at() }
    fn expiration(&self) -> Option<u16> { self.0.expiration() }
    fn verify_signature(&self, hash: pgp::crypto::hash::HashAlgorithm, data: &[u8], sig: &pgp::types::SignatureBytes) -> pgp::errors::Result<()> {
        self.0.verify_signature(hash, data, sig)
    }
    fn encrypt<R: rand::CryptoRng + rand::Rng>(&self, rng: R, plain: &[u8], typ: pgp::types::EskType) -> pgp::errors::Result<pgp::types::PkeskBytes> {
        self.0.encrypt(rng, plain, typ)
    }
    fn serialize_for_hashing(&self, writer: &mut impl std::io::Write) -> pgp::errors::Result<()> {
        self.0.serialize_for_hashing(writer)
    }
    fn public_params(&self) -> &pgp::types::PublicParams { self.0.public_params() }
}

impl pgp::types::SecretKeyTrait for FakeSecret {
    type PublicKey = pgp::packet::PublicKey;
    type Unlocked = ();
    fn unlock<F, G, T>(&self, _pw: F, work: G) -> pgp::errors::Result<T>
    where
        F: FnOnce() -> String,
        G: FnOnce(&Self::Unlocked) -> pgp::errors::Result<T>,
    {
        work(&())
    }
    fn create_signature<F>(&self, _key_pw: F, _hash: pgp::crypto::hash::HashAlgorithm, _data: &[u8]) -> pgp::errors::Result<pgp::types::SignatureBytes>
    where
        F: FnOnce() -> String,
    {
        use pgp::types::{Mpi, PublicKeyTrait};
        Ok(match u8::from(self.algorithm()) {
            17 | 19 | 22 => pgp::types::SignatureBytes::Mpis(vec![Mpi::from_slice(&[1, 2]), Mpi::from_slice(&[1, 3])]),
            27 => pgp::types::SignatureBytes::Native(vec![7u8; 64]),
            _ => pgp::types::SignatureBytes::Mpis(vec![Mpi::from_slice(&[1, 2])]),
        })
    }
    fn public_key(&self) -> Self::PublicKey { self.0.clone() }
}

fn fake_key(alg: u8) -> Option<FakeSecret> {
    let body = key_body(alg)?;
    pgp::packet::PublicKey::from_slice(pgp::types::Version::New, &body).ok().map(FakeSecret)
}

fn sgnew(alg: u8) -> String {
    use rpm::signature::Signing;
    match fake_key(alg) {
        None => "unparsable".into(),
        Some(k) => match Signer::new(k) {
            Ok(s) => format!("ok {}", alg_type_name(s.algorithm())),
            Err(e) => format!("err:{}", err_class(&e)),
        },
    }
}

fn vfload(alg: u8) -> String {
    use pgp::composed::Deserializable;
    use rpm::signature::Verifying;
    let body = match key_body(alg) {
        Some(b) => b,
        None => return "unparsable".into(),
    };
    let mut cert = new_packet(6, &body);
    cert.extend(new_packet(13, b"x <x@y>"));
    let asc = match pgp::SignedPublicKey::from_bytes(std::io::Cursor::new(&cert[..])).ok().and_then(|k| k.to_armored_string(Default::default()).ok()) {
        Some(a) => a,
        None => return "unparsable".into(),
    };
    match Verifier::load_from_asc(&asc) {
        Ok(v) => format!("ok {}", alg_type_name(v.algorithm())),
        Err(e) => format!("err:{}", err_class(&e)),
    }
}

/// what a signature packet says, read back with the pgp crate
fn describe_sig(raw: &[u8]) -> String {
    let sig = match pgp::packet::PacketParser::new(raw).find_map(|x| match x {
        Ok(pgp::packet::Packet::Signature(s)) => Some(s),
        _ => None,
    }) {
        Some(s) => s,
        None => return "unreadable".into(),
    };
    let list = |v: Vec<String>| if v.is_empty() { "-".to_string() } else { v.join(",") };
    let types = |v: &[pgp::packet::Subpacket]| list(v.iter().map(|sp| sp.typ().as_u8(false).to_string()).collect());
    let c = &sig.config;
    format!(
        "v={} typ={} alg={} hash={} hashed={} unhashed={} created={} issuers={} fps={}",
        u8::from(c.version()),
        u8::from(c.typ),
        u8::from(c.pub_alg),
        u8::from(c.hash_alg),
        types(&c.hashed_subpackets),
        types(&c.unhashed_subpackets),
        sig.created().map(|d| d.timestamp().to_string()).unwrap_or_else(|| "-".into()),
        list(sig.issuer().iter().map(|k| hex::encode(k.as_ref())).collect()),
        list(sig.issuer_fingerprint().iter().map(|f| hex::encode(f.as_bytes())).collect()),
    )
}

/// `<pgp::Signer as Signing>::sign` over a fake secret key of algorithm `alg`
fn sgcfg(alg: u8, t: u32) -> String {
    use rpm::signature::Signing;
    let k = match fake_key(alg) {
        Some(k) => k,
        None => return "unparsable".into(),
    };
    let signer = match Signer::new(k) {
        Ok(s) => s,
        Err(e) => return format!("err:{}", err_class(&e)),
    };
    match guarded(std::panic::AssertUnwindSafe(|| signer.sign(&b"some header bytes"[..], rpm::Timestamp::from(t)))) {
        Ok(Ok(raw)) => describe_sig(&raw),
        Ok(Err(e)) => format!("err:{}", err_class(&e)),
        Err(_) => "panic".into(),
    }
}

/// … and over the real key `K`
fn sgcfgk(key: &str, t: u32) -> String {
    use rpm::signature::Signing;
    let idx = match LETTERS.iter().position(|l| key.len() == 1 && key.starts_with(*l)) {
        Some(i) => i,
        None => return "bad-key".into(),
    };
    let r = guarded(std::panic::AssertUnwindSafe(|| with_keys(|k| k.signers[idx].sign(&b"some header bytes"[..], rpm::Timestamp::from(t)))));
    match r {
        Ok(Ok(raw)) => describe_sig(&raw),
        Ok(Err(e)) => format!("err:{}", err_class(&e)),
        Err(_) => "panic".into(),
    }
}

fn tsopt(secs: i64, nsecs: u32) -> String {
    use chrono::offset::TimeZone;
    match chrono::Utc.timestamp_opt(secs, nsecs) {
        chrono::offset::LocalResult::Single(d) => format!("single {} {}", d.timestamp(), d.timestamp_subsec_nanos()),
        chrono::offset::LocalResult::None => "none".into(),
        _ => "ambiguous".into(),
    }
}

/// RFC 4880 §12.2 for a v4 key packet body: (key id, fingerprint) as hex — computed here, not by the pgp crate
fn v4_ids(body: &[u8]) -> (String, String) {
    use sha1::Digest;
    let mut h = sha1::Sha1::new();
    h.update([0x99, (body.len() >> 8) as u8, body.len() as u8]);
    h.update(body);
    let fp = h.finalize();
    (hex::encode(&fp[12..20]), hex::encode(&fp[..]))
}

fn b64_decode(text: &str) -> Vec<u8> {
    let mut out = Vec::new();
    let (mut acc, mut bits) = (0u32, 0u32);
    for c in text.bytes() {
        let v = match c {
            b'A'..=b'Z' => c - b'A',
            b'a'..=b'z' => c - b'a' + 26,
            b'0'..=b'9' => c - b'0' + 52,
            b'+' => 62,
            b'/' => 63,
            _ => continue,
        } as u32;
        acc = (acc << 6) | v;
        bits += 6;
        if bits >= 8 {
            bits -= 8;
            out.push((acc >> bits) as u8);
            acc &= (1 << bits) - 1;
        }
    }
    out
}

/// RFC 4880 §12.2, computed here from the armoured public key file (NOT through rpm-rs or the pgp crate):
/// key id = low 64 bits of SHA-1(0x99 ‖ 2-byte length ‖ public-key packet body) of the primary (v4) key
fn key_id_of_public_asc(path: &str) -> Option<(String, String)> {
    use sha1::Digest;
    let text = std::fs::read_to_string(path).ok()?;
    let mut body = String::new();
    let mut in_body = false;
    for line in text.lines() {
        let line = line.trim();
        if line.starts_with("-----BEGIN") { continue; }
        if line.starts_with("-----END") { break; }
        if !in_body {
            // armour headers end with an empty line
            if line.is_empty() { in_body = true; } else if !line.contains(": ") { in_body = true; body.push_str(line); }
            continue;
        }
        if line.starts_with('=') { break; } // CRC-24 line
        body.push_str(line);
    }
    let raw = b64_decode(&body);
    let b0 = *raw.first()?;
    let (tag, len, off) = if b0 & 0x40 == 0 {
        let tag = (b0 >> 2) & 0xf;
        match b0 & 3 {
            0 => (tag, *raw.get(1)? as usize, 2),
            1 => (tag, ((*raw.get(1)? as usize) << 8) | *raw.get(2)? as usize, 3),
            2 => (tag, u32::from_be_bytes(raw.get(1..5)?.try_into().ok()?) as usize, 5),
            _ => return None,
        }
    } else {
        let l0 = *raw.get(1)? as usize;
        if l0 < 192 { (b0 & 0x3f, l0, 2) }
        else if l0 < 224 { (b0 & 0x3f, ((l0 - 192) << 8) + *raw.get(2)? as usize + 192, 3) }
        else if l0 == 255 { (b0 & 0x3f, u32::from_be_bytes(raw.get(2..6)?.try_into().ok()?) as usize, 6) }
        else { return None }
    };
    if tag != 6 { return None; }
    let pk = raw.get(off..off + len)?;
    if *pk.first()? != 4 { return None; }
    let mut h = sha1::Sha1::new();
    h.update([0x99, (len >> 8) as u8, len as u8]);
    h.update(pk);
    let fp = h.finalize();
    Some((hex::encode(&fp[12..20]), hex::encode(&fp[..])))
}

/// the key ids the four keys must be reported under
fn id_table() -> String {
    LETTERS.iter().enumerate()
        .map(|(i, l)| format!("{}={}", l, key_id_of_public_asc(&format!("{}/public_{}.asc", KEYDIR, NAMES[i])).map(|x| x.0).unwrap_or_else(|| "unknown".into())))
        .collect::<Vec<_>>()
        .join(",")
}

struct Walk<'a> {
    ctx: &'a mut Ctx,
    kind: String,
    blob: String,
    ids: String,
    gpg: bool,
    depth: usize,
    base: u64,
}

fn op_index(o: &str) -> u64 {
    OPS.iter().position(|x| *x == o).unwrap_or(0) as u64
}

impl Walk<'_> {
    fn line(&self, ops: &[&str]) -> String {
        let o = if ops.is_empty() { "-".to_string() } else { ops.join(",") };
        format!("hist {} {} {} {}{}", self.kind, self.blob, o, self.ids, if self.gpg { " gpg" } else { "" })
    }

    /// every node (op sequence) belongs to exactly one shard, decided by its first two ops
    fn owner(&self, ops: &[&str]) -> u64 {
        let u = match ops.len() {
            0 => 0,
            1 => op_index(ops[0]) * 6,
            _ => op_index(ops[0]) * 6 + op_index(ops[1]),
        };
        (self.base + u) % self.ctx.shard.1
    }

    /// does this shard own the node or anything below it?
    fn needed(&self, ops: &[&str]) -> bool {
        let si = self.ctx.shard.0;
        if ops.len() >= 2 {
            return self.owner(ops) == si;
        }
        if self.owner(ops) == si {
            return true;
        }
        if ops.len() + 1 > self.depth {
            return false;
        }
        OPS.iter().any(|x| {
            let mut v = ops.to_vec();
            v.push(x);
            self.needed(&v)
        })
    }

    /// depth-first over all op sequences: the state after a prefix is computed once and shared by all extensions
    fn dfs(&mut self, p: &rpm::Package, ops: &mut Vec<&'static str>, recs: &mut Vec<String>) {
        if self.owner(ops) == self.ctx.shard.0 {
            let l = self.line(ops);
            self.ctx.emit(&l, &recs.join(";"));
        }
        if ops.len() >= self.depth {
            return;
        }
        for o in OPS {
            ops.push(o);
            if self.needed(ops) {
                let mut q = p.clone();
                match apply(&mut q, o) {
                    Step::Done { fresh, res } => {
                        recs.push(record(&q, fresh, self.gpg, &res));
                        self.dfs(&q, ops, recs);
                    }
                    other => {
                        recs.push(format!("{}:{}", match other { Step::Panicked => "P", Step::Unrepresentable => "U", _ => "E" }, o));
                        if self.owner(ops) == self.ctx.shard.0 {
                            let l = self.line(ops);
                            self.ctx.emit(&l, &recs.join(";"));
                        }
                    }
                }
                recs.pop();
            }
            ops.pop();
        }
    }
}

/// the special step forms: refused attempts, signatures dated in the future, every timestamp type, `Package::sign`,
/// foreign signers, and (judged `dontcare`: the property speaks of valid operations) instants no `Timestamp` can hold
fn special_histories() -> Vec<String> {
    let unsupported = hex::encode(crafted_sig_packet(17));
    let accepted = hex::encode(crafted_sig_packet(1));
    let mut v: Vec<String> = ["xP", "sE,xP", "sR,w,xP,w", "c,xP", "xP,sC", "sE,xP,c", "SE", "sR,SE,w", "SR,c,SC", "SP,w,sR"].iter().map(|s| s.to_string()).collect();
    v.extend([
        // the instant as a u32 / SystemTime / DateTime<Utc> / DateTime<FixedOffset>, inside the range (incl. its two ends)
        "sE@sys:1600000000:5", "sR@utc:1500000000:999999999,w", "sC@fix:1600000000:1,c,sE@u32:0:0", "sE@u32:4294967295:0,w",
        "sE@sys:4294967295:999999999", "sP@fix:0:0", "sC@utc:0:999999999,sE@sys:0:0",
        // Package::sign
        "nE", "nR,w", "sE,nC,c,nP",
        // signers that refuse / answer with bytes `build` turns down: the state must not move
        "xF", "sE,xF,w", "xF,c,xP,sR", "r010203", "sE,r010203,w", "r-,sC",
        // outside the range: `try_into().unwrap()` panics — before the signer is asked
        "sE@sys:-1:0", "sE,sR@sys:-1:999999999,c", "sE@utc:4294967296:0", "c,sC@fix:-1:0", "sE,xF@sys:4294967296:0", "xP@utc:-5:0",
        "sR,r010203@fix:4294967296:5", "sE,w,sE@sys:8000000000:0",
    ].iter().map(|s| s.to_string()));
    // write_file + open as the write / re-parse step
    v.extend(["W", "W,W", "sE,W", "sR,W,c", "sE,W,sC,W", "c,W", "sP,W,w", "sC,w,W", "nE,W", "sE,xP,W", "W,sR@sys:1600000000:5,W"].iter().map(|s| s.to_string()));
    v.push(format!("sC,r{}", unsupported));
    v.push(format!("r{},sE,w", unsupported));
    v.push(format!("xF,r{}@utc:1600000000:0,c", unsupported));
    // a foreign signer whose bytes `build` files under RPMSIGTAG_RSA: not one of the property's operations
    v.push(format!("sE,r{},w", accepted));
    v
}

/// the table / configuration ties
fn table_requests(ctx: &Ctx) -> Vec<String> {
    let mut v = Vec::new();
    for alg in 0..=255u32 {
        v.push(format!("sgbuild {}", alg));
        v.push(format!("sgnew {}", alg));
        v.push(format!("vfload {}", alg));
    }
    let times: [u32; 7] = [0, 1, 1_600_000_000, 0x7fff_ffff, 0x8000_0000, 4_000_000_000, u32::MAX];
    for alg in [1u8, 19, 22, 27, 17, 3, 0, 200] {
        let ids = key_body(alg).map(|b| v4_ids(&b));
        for t in times {
            if let Some((kid, fp)) = &ids {
                v.push(format!("sgcfg {} {} {} {}", alg, t, kid, fp));
            }
        }
    }
    for (i, l) in LETTERS.iter().enumerate() {
        if let Some((kid, fp)) = key_id_of_public_asc(&format!("{}/public_{}.asc", KEYDIR, NAMES[i])) {
            for t in if ctx.thorough { &times[..] } else { &times[2..3] }.iter().chain([0u32, u32::MAX].iter()) {
                v.push(format!("sgcfgk {} {} {} {}", l, t, kid, fp));
            }
        }
    }
    // chrono's `timestamp_opt`: the ends of the representable range, the u32 window, leap-second notation
    let (lo, hi) = (-8_334_601_228_800i64, 8_210_266_876_799i64);
    for secs in [lo - 86_400, lo - 1, lo, lo + 1, -1, 0, 1, 59, 60, 1_600_000_000, u32::MAX as i64, u32::MAX as i64 + 1, hi - 1, hi, hi + 1, hi + 86_400, i64::MIN, i64::MAX] {
        for nsecs in [0u32, 999_999_999, 1_000_000_000, 1_999_999_999, 2_000_000_000, u32::MAX] {
            v.push(format!("tsopt {} {}", secs, nsecs));
        }
    }
    v
}

pub fn gen(ctx: &mut Ctx) {
    let ids = id_table();
    let gpg = ctx.thorough;
    let cwd = std::env::current_dir().expect("cwd");
    for (i, r) in table_requests(ctx).into_iter().enumerate() {
        if i as u64 % ctx.shard.1 == ctx.shard.0 {
            ctx.req(&r);
        }
    }
    let mut starts: Vec<(String, String, usize)> = Vec::new();
    for k in ["built2", "built0"] {
        starts.push((k.to_string(), format!("@{}/work/C10/{}.rpm", cwd.display(), k), ctx.q(3, 5)));
    }
    for p in crate::pkggen::asset_paths() {
        starts.push(("file".into(), format!("@{}", p.display()), ctx.q(2, 3)));
    }
    for f in ["rpm-empty-0-0.src.rpm", "rpm-empty-0-0.x86_64.rpm"] {
        starts.push(("file".into(), format!("@/repo/test_assets/fixture_packages/{}", f), ctx.q(2, 3)));
    }
    // main headers the library itself would not lay out this way (see `variant_start`)
    for k in VARIANT_KINDS {
        starts.push((k.to_string(), format!("@{}/work/C10/{}.rpm", cwd.display(), k), ctx.q(1, 2)));
    }
    let specials = special_histories();
    for (n, (kind, blob, depth)) in starts.into_iter().enumerate() {
        let p = match start_package(&kind, &blob) {
            Some(p) => p,
            None => {
                if n as u64 % ctx.shard.1 == ctx.shard.0 {
                    ctx.emit(&format!("hist {} {} - {}", kind, blob, ids), "start-err");
                }
                continue;
            }
        };
        for (hi, h) in specials.iter().enumerate() {
            if (n + hi) as u64 % ctx.shard.1 == ctx.shard.0 && (ctx.thorough || n < 2 || hi % 4 == n % 4) {
                ctx.req(&format!("hist {} {} {} {}", kind, blob, h, ids));
            }
        }
        // the usual two- and three-step histories from the starts whose tree is only one level deep
        if VARIANT_KINDS.contains(&kind.as_str()) && !ctx.thorough {
            for (hi, h) in ["sE,w,c", "sR,sC,w", "c,w,sP", "sC,c,sE"].iter().enumerate() {
                if (n + hi) as u64 % ctx.shard.1 == ctx.shard.0 {
                    ctx.req(&format!("hist {} {} {} {}", kind, blob, h, ids));
                }
            }
        }
        // the family of `W` histories: every op followed by W, W followed by every op, and a,W,b (a rotating fifth in quick)
        {
            const A: [&str; 5] = ["sR", "sP", "sE", "sC", "c"];
            let mut fam: Vec<String> = Vec::new();
            for a in A {
                fam.push(format!("{},W", a));
                fam.push(format!("W,{}", a));
            }
            for (ai, a) in A.iter().enumerate() {
                for (bi, b) in A.iter().enumerate() {
                    if ctx.thorough || (ai + bi + n) % 5 == 0 {
                        fam.push(format!("{},W,{}", a, b));
                    }
                }
            }
            for (hi, h) in fam.iter().enumerate() {
                if (n + hi) as u64 % ctx.shard.1 == ctx.shard.0 {
                    ctx.req(&format!("hist {} {} {} {}", kind, blob, h, ids));
                }
            }
        }
        let first = record(&p, None, gpg, "-");
        let mut w = Walk { ctx: &mut *ctx, kind, blob, ids: ids.clone(), gpg, depth, base: n as u64 * 37 };
        w.dfs(&p, &mut Vec::new(), &mut vec![first]);
    }
    let _ = std::fs::remove_dir_all(gpg_dir());
}
