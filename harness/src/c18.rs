//! C18: `FileMode` conversions through the public API (`From<u16>`, `From<i32>`, `try_from_raw`,
//! `to_result`, `raw_mode`, `file_type`, `permissions`, `u16::from`, `u32::from`, the three constructors), the public
//! variant fields, and the derived `==` / `Hash`.
use crate::common::*;
use rpm::FileMode;

/// everything the API tells about one value (see lean/RpmVerif/Driver/C18.lean for the format)
struct Obs {
    kind: u64, // 0 dir, 1 reg, 2 sym, 3 inv, 4 other
    raw: u16,
    ftype: u16,
    perm: u16,
    back16: u16,
    back32: u32,
    err: bool,
    stored: Option<i32>,
    /// the `permissions` FIELD of the variant (pattern match, not the getter)
    field: Option<u16>,
    /// `FileMode::from(m.raw_mode()) == m`
    rt: bool,
    /// … and the two hash alike
    heq: bool,
    /// 0 not Invalid, 1 the reason `From<u16>` gives, 2 the reason `From<i32>` gives an out-of-range integer, 3 neither
    reason: u8,
}

fn hash_of(m: &FileMode) -> u64 {
    use std::hash::{Hash, Hasher};
    let mut h = std::collections::hash_map::DefaultHasher::new();
    m.hash(&mut h);
    h.finish()
}

/// the two reasons are recognised by comparison with reference values, not by their text (a reworded message is not a finding)
fn reason_class(reason: &str) -> u8 {
    let of = |m: FileMode| match m {
        FileMode::Invalid { reason, .. } => Some(reason),
        _ => None,
    };
    if of(FileMode::from(0u16)) == Some(reason) {
        1
    } else if of(FileMode::from(70_000i32)) == Some(reason) {
        2
    } else {
        3
    }
}

fn observe(m: FileMode, err: bool) -> Obs {
    let (kind, stored, field, reason) = match m {
        FileMode::Dir { permissions } => (0, None, Some(permissions), 0),
        FileMode::Regular { permissions } => (1, None, Some(permissions), 0),
        FileMode::SymbolicLink { permissions } => (2, None, Some(permissions), 0),
        FileMode::Invalid { raw_mode, reason } => (3, Some(raw_mode), None, reason_class(reason)),
        #[allow(unreachable_patterns)]
        _ => (4, None, None, 0),
    };
    let again = FileMode::from(m.raw_mode());
    Obs {
        kind,
        raw: m.raw_mode(),
        ftype: m.file_type(),
        perm: m.permissions(),
        back16: u16::from(m),
        back32: u32::from(m),
        err,
        stored,
        field,
        rt: again == m,
        heq: hash_of(&again) == hash_of(&m),
        reason,
    }
}

fn fmt(o: &Obs) -> String {
    format!(
        "{},{:04x},{:04x},{:04x},{:04x},{:08x},{},{},{},{},{},{}",
        ["dir", "reg", "sym", "inv", "other"][o.kind as usize],
        o.raw,
        o.ftype,
        o.perm,
        o.back16,
        o.back32,
        if o.err { "err" } else { "ok" },
        match o.stored {
            Some(n) => n.to_string(),
            None => "-".to_string(),
        },
        match o.field {
            Some(f) => format!("{:04x}", f),
            None => "-".to_string(),
        },
        o.rt as u8,
        o.heq as u8,
        ["-", "u", "o", "x"][o.reason as usize]
    )
}

/// `From<i32>` and `try_from_raw` must tell the same story; if they do not, the kind is `other`
fn observe_i32(n: i32) -> Obs {
    let m = FileMode::from(n);
    let r = FileMode::try_from_raw(n);
    let mut o = observe(m, r.is_err());
    if m.to_result().is_err() != r.is_err() || r.map(|x| x != m).unwrap_or(false) {
        o.kind = 4;
    }
    o
}

fn mix(h: u64, v: u64) -> u64 {
    let x = (h ^ v).wrapping_mul(0x100000001b3);
    x ^ (x >> 29)
}

fn digest(h: u64, o: &Obs) -> u64 {
    let x1 = o.kind + if o.err { 8 } else { 0 } + ((o.raw as u64) << 8) + ((o.ftype as u64) << 24) + ((o.perm as u64) << 40);
    let x2 = o.back16 as u64 + ((o.back32 as u64) << 16);
    let x3 = match o.stored {
        Some(n) => n as u32 as u64,
        None => 1u64 << 32,
    };
    let x4 = match o.field {
        Some(f) => f as u64,
        None => 65536,
    } + if o.rt { 131072 } else { 0 }
        + if o.heq { 262144 } else { 0 }
        + [0u64, 524288, 1048576, 0][o.reason as usize];
    mix(mix(mix(mix(h, x1), x2), x3), x4)
}

/// Conversions the crate does NOT have today (`From<u32>`, `From<i64>`, … for `FileMode`) are probed at compile time with
/// autoref specialisation: when an impl exists the first trait applies and the conversion is exercised, otherwise the
/// fall-back answers `None` ("absent"). A newly added integer entry point is thereby inside the check the day it appears
/// (seed C18-9: `From<u32>` forwarding through an `as i32` cast that wraps 0xFFFF8000.. into the accepted range).
struct Probe<T>(std::marker::PhantomData<T>);
trait ViaFrom<T> {
    fn conv(&self, v: T) -> Option<FileMode>;
}
impl<T> ViaFrom<T> for Probe<T>
where
    FileMode: From<T>,
{
    fn conv(&self, v: T) -> Option<FileMode> {
        Some(FileMode::from(v))
    }
}
trait NoFrom<T> {
    fn conv(&self, v: T) -> Option<FileMode>;
}
impl<T> NoFrom<T> for &Probe<T> {
    fn conv(&self, _v: T) -> Option<FileMode> {
        None
    }
}
macro_rules! probe {
    ($t:ty, $n:expr) => {{
        match <$t>::try_from($n) {
            Ok(v) => match (&Probe::<$t>(std::marker::PhantomData)).conv(v) {
                Some(m) => fmt(&observe(m, m.to_result().is_err())),
                None => "absent".to_string(),
            },
            Err(_) => "unrepresentable".to_string(),
        }
    }};
}

pub fn eval(op: &str, a: &[&str]) -> Option<String> {
    match op {
        "fmx" => {
            // `fmx <type> <n>`: the conversion from that integer type, if the crate has one
            let n: i128 = a.get(1)?.parse().ok()?;
            Some(match *a.first()? {
                "u8" => probe!(u8, n),
                "i8" => probe!(i8, n),
                "i16" => probe!(i16, n),
                "u32" => probe!(u32, n),
                "i64" => probe!(i64, n),
                "u64" => probe!(u64, n),
                "usize" => probe!(usize, n),
                "isize" => probe!(isize, n),
                _ => return None,
            })
        }
        "fm16" => {
            let w: u16 = a.first()?.parse().ok()?;
            let m = FileMode::from(w);
            Some(fmt(&observe(m, m.to_result().is_err())))
        }
        "fm32" => {
            let n: i32 = a.first()?.parse().ok()?;
            Some(fmt(&observe_i32(n)))
        }
        "fmctor" => {
            let p: u16 = a.get(1)?.parse().ok()?;
            let m = match *a.first()? {
                "reg" => FileMode::regular(p),
                "dir" => FileMode::dir(p),
                "sym" => FileMode::symbolic_link(p),
                _ => return None,
            };
            Some(fmt(&observe(m, m.to_result().is_err())))
        }
        "fm32blk" => {
            let start: i64 = a.first()?.parse().ok()?;
            let count: i64 = a.get(1)?.parse().ok()?;
            if start < i32::MIN as i64 || count <= 0 || start + count > i32::MAX as i64 + 1 {
                return None;
            }
            let (mut h, mut ninv, mut bad) = (0xcbf29ce484222325u64, 0u64, None);
            for n in start..start + count {
                let o = observe_i32(n as i32);
                h = digest(h, &o);
                if o.kind == 3 && o.err {
                    ninv += 1;
                } else if bad.is_none() {
                    bad = Some(n);
                }
            }
            Some(format!("{:016x},{},{}", h, ninv, bad.map(|n| n.to_string()).unwrap_or("-".into())))
        }
        _ => None,
    }
}

pub fn gen(ctx: &mut Ctx) {
    let (si, sn) = ctx.shard;
    let mine = |i: u64| i % sn == si;
    // every 16-bit word through From<u16>; every u16 through the three constructors
    for w in 0..=u16::MAX as u64 {
        if mine(w) {
            ctx.req(&format!("fm16 {}", w));
            for k in ["reg", "dir", "sym"] {
                ctx.req(&format!("fmctor {} {}", k, w));
            }
        }
    }
    // integer types the crate has no conversion for today (probed; "absent" unless someone adds one)
    {
        let pts: [i128; 22] = [0, 1, 0o644, 0o100644, 0o40755, 0o120777, 32767, 32768, 65535, 65536, 70000, 0xFFFF_81A4, 0xFFFF_8000, 0xFFFF_7FFF,
                               0xFFFF_FFFF, 0x1_0000_81A4, -1, -32768, -32769, 0x7FFF_FFFF, -0x8000_0000, 0x8000_0000];
        let mut k = 0u64;
        for t in ["u8", "i8", "i16", "u32", "i64", "u64", "usize", "isize"] {
            for n in pts.iter() {
                k += 1;
                if mine(k) {
                    ctx.req(&format!("fmx {} {}", t, n));
                }
            }
        }
    }
    // i32: the window of ±70 000 around 0 (covers both ends of the accepted range with margin)
    for (i, n) in (-70_000i64..=70_000).enumerate() {
        if mine(i as u64) {
            ctx.req(&format!("fm32 {}", n));
        }
    }
    // ± 2^k, ± 2^k ± 1, and the ends of i32
    let mut pts: Vec<i64> = vec![i32::MIN as i64, i32::MAX as i64, i32::MIN as i64 + 1, i32::MAX as i64 - 1];
    for k in 0..=31 {
        for s in [1i64, -1] {
            for d in [-1i64, 0, 1] {
                pts.push(s * (1i64 << k) + d);
            }
        }
    }
    pts.retain(|n| *n >= i32::MIN as i64 && *n <= i32::MAX as i64);
    pts.sort();
    pts.dedup();
    for (i, n) in pts.iter().enumerate() {
        if mine(i as u64) {
            ctx.req(&format!("fm32 {}", n));
        }
    }
    // seeded random i32 values: half uniform over i32, half with a uniform 17-bit low part under a
    // random sign/shift so that the neighbourhood of the 16-bit range is hit often
    let n = ctx.q(100_000u64, 1_000_000) / sn;
    for j in 0..n {
        let r = ctx.rng.next();
        let v: i32 = if j % 2 == 0 {
            r as u32 as i32
        } else {
            let low = (r & 0x1ffff) as i64; // 0 .. 131071
            let hi = ((r >> 17) & 0x7) as i64; // 0 .. 7 further multiples of 2^17
            let x = low + (hi << 17);
            (if (r >> 20) & 1 == 1 { -x } else { x }) as i32
        };
        ctx.req(&format!("fm32 {}", v));
    }
    if ctx.thorough {
        // a strided sweep of the whole i32 space, one value out of every 2^11 with a per-seed offset
        let off = (ctx.seed % 2048) as i64;
        for i in 0..(1u64 << 21) {
            if mine(i) {
                ctx.req(&format!("fm32 {}", i32::MIN as i64 + ((i as i64) << 11) + off));
            }
        }
        // complete enumeration of all 2^32 integers in 65 536 blocks of 65 536, digested
        for b in 0..(1u64 << 16) {
            if mine(b) {
                ctx.req(&format!("fm32blk {} 65536", i32::MIN as i64 + ((b as i64) << 16)));
            }
        }
    }
}
