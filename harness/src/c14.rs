//! C14: serialisation does not depend on how the sink or source chunks I/O.
//!
//! ops
//!   wr  PKG SINK   Package::write of the parsed PKG into a scripted sink
//!   wrm PKG SINK   PackageMetadata::write            "
//!       observation: `ok|err <emitted length> <fnv of emitted bytes>` | `noparse`
//!   rd  PKG SRC    Package::parse from a scripted source vs. from the plain slice
//!       observation: `c=<r> u=<r>` with r = `ok:<len>:<fnv of the re-written package>` | `err`
//!   tr  PKG K      Package::parse of the first K bytes
//!       observation: `ok|err po=<payload offset of the full package | ->`
//!   wf  PKG CAP SINK   the body of Package::write_file over `BufWriter::with_capacity(CAP, scripted sink)`:
//!                      Package::write, then flush()?, then the drop (validates the BufWriter model against std)
//!   wfile PKG LIMIT    the REAL Package::write_file(path) in a forked child whose RLIMIT_FSIZE is LIMIT bytes
//!                      (`-` = no limit; SIGXFSZ ignored, so the file takes bytes up to LIMIT and then fails with EFBIG)
//!   wfile PKG LIMIT MODE   the same with another argument type / destination:
//!                      str | refpath | string  the path handed over as `&str` / `&Path` / `String` (default: `&PathBuf`)
//!                      pre<K>   the destination already exists and holds K bytes of 0xAA (`File::create` must truncate it:
//!                               a LONGER old file may not leave a stale tail behind the package)
//!                      nodir    the destination lies in a directory that does not exist; isdir: the destination IS a directory
//!                               (`File::create` fails: `err`, nothing written, nothing created)
//!       observation (both): `ok|err <bytes that reached the sink / file> <fnv of them>` | `noparse`
//!
//! SINK = CHUNK[:i<j>][:f<N>|:z<N>]      SRC = CHUNK[:i<j>]:(d|b<cap>)
//!   CHUNK  a (everything offered) | 1 | k<n> | r<seed> (sizes 1..=17 from splitmix64)
//!   i<j>   every j-th call answers ErrorKind::Interrupted (j >= 2)
//!   f<N>   once N bytes are in every call is a hard error (never accepts beyond N)
//!   z<N>   once N bytes are in every call answers Ok(0)
//!   e<N>   once N bytes are in the next call is a hard error, ONCE; afterwards the sink accepts again
//!          (a serialiser that swallows an error would go on and emit bytes after a gap)
//!   d      the scripted source itself is the BufRead;  b<cap>  BufReader::with_capacity(cap, scripted Read)
//! Order inside one call: limit check, then the Interrupted check, then the size draw.
use crate::common::*;
use crate::pkggen::*;
use std::io::{self, BufRead, Read, Write};

#[derive(Clone, Copy, Debug)]
enum Chunk {
    All,
    One,
    Fixed(usize),
    Rand(u64),
}

#[derive(Clone, Copy, Debug)]
struct Spec {
    chunk: Chunk,
    intr: u64,
    limit: Option<(usize, u8)>, // (N, mode): 0 hard error forever, 1 Ok(0) forever, 2 hard error once
    bufcap: Option<usize>,        // source only: None = direct
}

fn parse_spec(s: &str) -> Option<Spec> {
    let mut it = s.split(':');
    let c = it.next()?;
    let chunk = if c == "a" {
        Chunk::All
    } else if c == "1" {
        Chunk::One
    } else if let Some(n) = c.strip_prefix('k') {
        let n: usize = n.parse().ok()?;
        if n == 0 { return None; }
        Chunk::Fixed(n)
    } else if let Some(n) = c.strip_prefix('r') {
        Chunk::Rand(n.parse().ok()?)
    } else {
        return None;
    };
    let mut sp = Spec { chunk, intr: 0, limit: None, bufcap: None };
    for t in it {
        if let Some(n) = t.strip_prefix('i') {
            sp.intr = n.parse().ok()?;
            if sp.intr < 2 { return None; }
        } else if let Some(n) = t.strip_prefix('f') {
            sp.limit = Some((n.parse().ok()?, 0));
        } else if let Some(n) = t.strip_prefix('z') {
            sp.limit = Some((n.parse().ok()?, 1));
        } else if let Some(n) = t.strip_prefix('e') {
            sp.limit = Some((n.parse().ok()?, 2));
        } else if t == "d" {
            sp.bufcap = None;
        } else if let Some(n) = t.strip_prefix('b') {
            let n: usize = n.parse().ok()?;
            if n == 0 { return None; }
            sp.bufcap = Some(n);
        } else {
            return None;
        }
    }
    Some(sp)
}

struct Script {
    spec: Spec,
    rng: Rng,
    calls: u64,
}
impl Script {
    fn new(spec: Spec) -> Self {
        let seed = if let Chunk::Rand(s) = spec.chunk { s } else { 0 };
        Script { spec, rng: Rng::new(seed), calls: 0 }
    }
    /// None = Interrupted, Some(size wanted by the script for this call)
    fn next(&mut self, offered: usize) -> Option<usize> {
        self.calls += 1;
        if self.spec.intr > 0 && self.calls % self.spec.intr == 0 {
            return None;
        }
        Some(match self.spec.chunk {
            Chunk::All => offered,
            Chunk::One => 1,
            Chunk::Fixed(k) => k,
            Chunk::Rand(_) => 1 + self.rng.below(17) as usize,
        })
    }
}

struct Sink {
    sc: Script,
    out: Vec<u8>,
    fired: bool,
}
impl Write for Sink {
    fn write(&mut self, buf: &[u8]) -> io::Result<usize> {
        if buf.is_empty() {
            return Ok(0);
        }
        if let Some((n, mode)) = self.sc.spec.limit {
            if self.out.len() >= n && !self.fired {
                if mode == 2 {
                    self.fired = true;
                }
                return if mode == 1 { Ok(0) } else { Err(io::Error::new(io::ErrorKind::Other, "sink full")) };
            }
        }
        let size = match self.sc.next(buf.len()) {
            None => return Err(io::Error::from(io::ErrorKind::Interrupted)),
            Some(s) => s,
        };
        let mut n = size.min(buf.len());
        if let Some((lim, _)) = self.sc.spec.limit {
            if !self.fired {
                n = n.min(lim - self.out.len());
            }
        }
        self.out.extend_from_slice(&buf[..n]);
        Ok(n)
    }
    /// The sink is a vectored writer of its own (like a pipe or socket): one scripted call may accept bytes across
    /// the slices it is offered, and stop in the middle of any of them. Serialisers that use `write_vectored`
    /// must cope with that; the ones that only use `write` / `write_all` never reach this.
    fn write_vectored(&mut self, bufs: &[io::IoSlice<'_>]) -> io::Result<usize> {
        let total: usize = bufs.iter().map(|b| b.len()).sum();
        if total == 0 {
            return Ok(0);
        }
        let mut flat = Vec::with_capacity(total);
        for b in bufs {
            flat.extend_from_slice(b);
        }
        self.write(&flat)
    }
    fn flush(&mut self) -> io::Result<()> {
        Ok(())
    }
}

struct Source {
    sc: Script,
    data: Vec<u8>,
    pos: usize,
}
impl Read for Source {
    fn read(&mut self, buf: &mut [u8]) -> io::Result<usize> {
        if buf.is_empty() {
            return Ok(0);
        }
        let size = match self.sc.next(buf.len()) {
            None => return Err(io::Error::from(io::ErrorKind::Interrupted)),
            Some(s) => s,
        };
        let n = size.min(buf.len()).min(self.data.len() - self.pos);
        buf[..n].copy_from_slice(&self.data[self.pos..self.pos + n]);
        self.pos += n;
        Ok(n)
    }
}
impl BufRead for Source {
    fn fill_buf(&mut self) -> io::Result<&[u8]> {
        let left = self.data.len() - self.pos;
        let size = match self.sc.next(left) {
            None => return Err(io::Error::from(io::ErrorKind::Interrupted)),
            Some(s) => s,
        };
        let n = size.min(left);
        Ok(&self.data[self.pos..self.pos + n])
    }
    fn consume(&mut self, amt: usize) {
        self.pos = (self.pos + amt).min(self.data.len());
    }
}

fn write_obs(bytes: &[u8], spec: &str, meta_only: bool) -> String {
    let sp = match parse_spec(spec) {
        Some(s) => s,
        None => return "bad-request".into(),
    };
    let mut sink = Sink { sc: Script::new(sp), out: Vec::new(), fired: false };
    let r = if meta_only {
        match rpm::PackageMetadata::parse(&mut &bytes[..]) {
            Ok(m) => m.write(&mut sink),
            Err(_) => return "noparse".into(),
        }
    } else {
        match rpm::Package::parse(&mut &bytes[..]) {
            Ok(p) => p.write(&mut sink),
            Err(_) => return "noparse".into(),
        }
    };
    format!("{} {} {:016x}", if r.is_ok() { "ok" } else { "err" }, sink.out.len(), fnv(&sink.out))
}

/// what `write_file` does (src/rpm/package.rs), with the file replaced by a scripted sink
fn write_file_body_obs(bytes: &[u8], cap: usize, spec: &str) -> String {
    let sp = match parse_spec(spec) {
        Some(s) => s,
        None => return "bad-request".into(),
    };
    let pkg = match rpm::Package::parse(&mut &bytes[..]) {
        Ok(p) => p,
        Err(_) => return "noparse".into(),
    };
    let mut sink = Sink { sc: Script::new(sp), out: Vec::new(), fired: false };
    let r: Result<(), rpm::Error> = {
        let mut out = io::BufWriter::with_capacity(cap, &mut sink);
        (|| {
            pkg.write(&mut out)?;
            out.flush()?;
            Ok(())
        })()
        // `out` is dropped here: one more flush attempt whose result is discarded
    };
    format!("{} {} {:016x}", if r.is_ok() { "ok" } else { "err" }, sink.out.len(), fnv(&sink.out))
}

static WFILE_COUNTER: std::sync::atomic::AtomicU64 = std::sync::atomic::AtomicU64::new(0);

/// the real `Package::write_file` against a real file that the kernel stops at `limit` bytes
fn write_file_real_obs(bytes: &[u8], limit: Option<u64>, mode: &str) -> String {
    let pkg = match rpm::Package::parse(&mut &bytes[..]) {
        Ok(p) => p,
        Err(_) => return "noparse".into(),
    };
    let dir = std::env::current_dir().map(|d| d.join("work")).unwrap_or_else(|_| std::env::temp_dir());
    let _ = std::fs::create_dir_all(&dir);
    let n = WFILE_COUNTER.fetch_add(1, std::sync::atomic::Ordering::SeqCst);
    let mut path = dir.join(format!("c14-wfile-{}-{}.rpm", std::process::id(), n));
    let _ = std::fs::remove_file(&path);
    let mut made_dir = false;
    if let Some(k) = mode.strip_prefix("pre") {
        let k: usize = match k.parse() { Ok(k) => k, Err(_) => return "bad-request".into() };
        if std::fs::write(&path, vec![0xaau8; k]).is_err() {
            return "io-setup".into();
        }
    } else if mode == "nodir" {
        path = dir.join(format!("c14-nodir-{}-{}", std::process::id(), n)).join("x.rpm");
    } else if mode == "isdir" {
        if std::fs::create_dir(&path).is_err() {
            return "io-setup".into();
        }
        made_dir = true;
    }
    let code = unsafe {
        let pid = libc::fork();
        if pid < 0 {
            return "fork-failed".into();
        }
        if pid == 0 {
            if let Some(l) = limit {
                let lim = libc::rlimit { rlim_cur: l as libc::rlim_t, rlim_max: l as libc::rlim_t };
                libc::setrlimit(libc::RLIMIT_FSIZE, &lim);
                libc::signal(libc::SIGXFSZ, libc::SIG_IGN);
            }
            let r = std::panic::catch_unwind(std::panic::AssertUnwindSafe(|| match mode {
                "str" => pkg.write_file(path.to_str().unwrap_or("")),
                "refpath" => pkg.write_file(path.as_path()),
                "string" => pkg.write_file(path.to_string_lossy().to_string()),
                _ => pkg.write_file(&path),
            }));
            libc::_exit(match r {
                Ok(Ok(())) => 0,
                Ok(Err(_)) => 1,
                Err(_) => 2,
            });
        }
        let mut status = 0;
        libc::waitpid(pid, &mut status, 0);
        if libc::WIFEXITED(status) { libc::WEXITSTATUS(status) } else { 100 }
    };
    let content = if made_dir { Vec::new() } else { std::fs::read(&path).unwrap_or_default() };
    if made_dir {
        // still an (empty) directory?
        if std::fs::remove_dir(&path).is_err() {
            return "destination-directory-changed".into();
        }
    } else {
        let _ = std::fs::remove_file(&path);
    }
    if mode == "nodir" {
        if let Some(parent) = path.parent() {
            if parent.exists() {
                let _ = std::fs::remove_dir_all(parent);
                return "directory-created".into();
            }
        }
    }
    let res = match code {
        0 => "ok",
        1 => "err",
        2 => "panic",
        _ => "abort",
    };
    format!("{} {} {:016x}", res, content.len(), fnv(&content))
}

fn parse_result(r: Result<rpm::Package, rpm::Error>) -> String {
    match r {
        Ok(p) => {
            let mut w = Vec::new();
            match p.write(&mut w) {
                Ok(()) => format!("ok:{}:{:016x}", w.len(), fnv(&w)),
                Err(_) => "err-write".into(),
            }
        }
        Err(_) => "err".into(),
    }
}

fn read_obs(bytes: &[u8], spec: &str) -> String {
    let sp = match parse_spec(spec) {
        Some(s) => s,
        None => return "bad-request".into(),
    };
    let src = Source { sc: Script::new(sp), data: bytes.to_vec(), pos: 0 };
    let chunked = match sp.bufcap {
        None => {
            let mut s = src;
            parse_result(rpm::Package::parse(&mut s))
        }
        Some(cap) => {
            let mut b = io::BufReader::with_capacity(cap, src);
            parse_result(rpm::Package::parse(&mut b))
        }
    };
    let plain = parse_result(rpm::Package::parse(&mut &bytes[..]));
    format!("c={} u={}", chunked, plain)
}

fn trunc_obs(bytes: &[u8], k: usize) -> String {
    let po = match rpm::Package::parse(&mut &bytes[..]) {
        Ok(p) => p.metadata.get_package_segment_offsets().payload.to_string(),
        Err(_) => "-".to_string(),
    };
    let k = k.min(bytes.len());
    let r = rpm::Package::parse(&mut &bytes[..k]);
    format!("{} po={}", if r.is_ok() { "ok" } else { "err" }, po)
}

pub fn eval(op: &str, a: &[&str]) -> Option<String> {
    match op {
        "wr" if a.len() == 2 => Some(write_obs(&arg_bytes(a[0]), a[1], false)),
        "wrm" if a.len() == 2 => Some(write_obs(&arg_bytes(a[0]), a[1], true)),
        "rd" if a.len() == 2 => Some(read_obs(&arg_bytes(a[0]), a[1])),
        "tr" if a.len() == 2 => Some(trunc_obs(&arg_bytes(a[0]), a[1].parse().ok()?)),
        "wf" if a.len() == 3 => Some(write_file_body_obs(&arg_bytes(a[0]), a[1].parse().ok()?, a[2])),
        "wfile" if a.len() == 2 || a.len() == 3 => Some(write_file_real_obs(&arg_bytes(a[0]), if a[1] == "-" { None } else { Some(a[1].parse().ok()?) }, a.get(2).copied().unwrap_or("pathbuf"))),
        _ => None,
    }
}

/// a structurally parseable package of roughly `target` bytes (many entries of all types, padding mostly present)
pub fn gen_package_sized(rng: &mut Rng, target: usize) -> Vec<u8> {
    let lead = gen_lead(rng, true);
    let mut sig = GHeader::new();
    for i in 0..(2 + rng.below(3)) {
        let ty = *rng.pick(&[4u32, 6, 7, 7]);
        let nb = 5 + rng.below(20) as usize;
        let d = match ty { 7 => TData::Bytes(rng.bytes(nb)), t => rand_data(rng, t) };
        sig.push(1000 + i as u32, ty, &d);
    }
    if sig.store.len() % 8 == 0 {
        sig.store.push(7);
    }
    sig.reserved = [1, 2, 3, 4];
    let mut hdr = GHeader::new();
    let payload_len = (target / 10).max(8);
    while 96 + sig.bytes().len() + 8 + hdr.bytes().len() + payload_len < target {
        let ty = rng.below(10) as u32;
        let nb = 40 + rng.below(200) as usize;
        let d = match ty {
            7 if rng.chance(1, 4) => TData::Bytes(rng.bytes(nb)),
            t => rand_data(rng, t),
        };
        let tag = rand_tag(rng);
        hdr.push(tag, ty, &d);
    }
    let payload = rng.bytes(payload_len);
    assemble(&lead, &sig, 0x55, &hdr, &payload)
}

/// emit one request in the shard that owns item `i`
fn ctx_req_owned(ctx: &mut Ctx, i: u64, req: String) {
    if i % ctx.shard.1 == ctx.shard.0 {
        ctx.req(&req);
    }
}

fn every<F: FnMut(&mut Ctx, u64)>(ctx: &mut Ctx, n: u64, mut f: F) {
    // shard-partitioned loop: item i belongs to shard i % sn
    let (si, sn) = ctx.shard;
    for i in 0..n {
        if i % sn == si {
            f(ctx, i);
        }
    }
}

pub fn gen(ctx: &mut Ctx) {
    let seed = ctx.seed;
    // the same packages in every shard: generated from the seed alone
    let mut prng = Rng::new(seed ^ 0xC14);
    let small = gen_package_sized(&mut prng, 1200);
    let small_hex = hx(&small);
    let rs = seed % 1000;

    // A. every failure offset 0..=len of the ~1.2 KiB package under several chunk patterns (hard error and Ok(0))
    let pats_a: Vec<String> = vec!["a".into(), "1".into(), "k7".into(), format!("r{}:i3", rs), "k3:i2".into()];
    let n = small.len() as u64 + 1;
    for (pi, pat) in pats_a.iter().enumerate() {
        let zero = pi == 2 || pi == 4;
        every(ctx, n, |ctx, i| {
            ctx.req(&format!("wr {} {}:{}{}", small_hex, pat, if zero { "z" } else { "f" }, i));
        });
    }
    // a transient failure at every offset: one hard error, then the sink accepts again
    every(ctx, n, |ctx, i| ctx.req(&format!("wr {} k5:e{}", small_hex, i)));
    // metadata only, one pattern, every offset
    every(ctx, n, |ctx, i| ctx.req(&format!("wrm {} k5:i4:f{}", small_hex, i)));

    // E. write_file: (1) its body over std's BufWriter with small capacities and scripted sinks, failure at every
    //    offset (strided in quick); (2) the real write_file against a file limited by RLIMIT_FSIZE, on the small
    //    package (fits the 8 KiB buffer: only the final flush can notice) and on a ~20 KiB one (flushes + direct writes)
    let stride_e = ctx.q(5u64, 1);
    for (ci, cap) in [1usize, 2, 7, 16, 64, 300, 8192].iter().enumerate() {
        let pat = ["a", "1", "k3:i2", "k7", "a:i3", "k16", "a"][ci];
        every(ctx, n, |ctx, i| {
            if (i + ci as u64) % stride_e == 0 || i + 3 >= n {
                let m = ["f", "z", "e"][((i / stride_e) % 3) as usize];
                ctx.req(&format!("wf {} {} {}:{}{}", small_hex, cap, pat, m, i));
            }
        });
        ctx_req_owned(ctx, ci as u64, format!("wf {} {} {}", small_hex, cap, pat));
    }
    let stride_f = ctx.q(13u64, 1);
    every(ctx, n, |ctx, i| {
        if i % stride_f == 0 || i + 2 >= n {
            ctx.req(&format!("wfile {} {}", small_hex, i));
        }
    });
    ctx_req_owned(ctx, 1, format!("wfile {} -", small_hex));
    let big20 = gen_package_sized(&mut prng, 20_000);
    let big20_hex = hx(&big20);
    let nb = big20.len() as u64 + 1;
    let stride_g = ctx.q(997u64, 89);
    every(ctx, nb, |ctx, i| {
        if i % stride_g == 0 || i + 2 >= nb || (8190..8195).contains(&i) {
            ctx.req(&format!("wfile {} {}", big20_hex, i));
            ctx.req(&format!("wf {} 8192 k4096:f{}", big20_hex, i));
        }
    });
    ctx_req_owned(ctx, 2, format!("wfile {} -", big20_hex));
    // other argument types, a pre-existing (longer / shorter / equal) destination, destinations that cannot be created
    {
        let (sl, bl) = (small.len(), big20.len());
        let mut reqs: Vec<String> = Vec::new();
        for m in ["str", "refpath", "string", "nodir", "isdir"] {
            reqs.push(format!("wfile {} - {}", small_hex, m));
            reqs.push(format!("wfile {} - {}", big20_hex, m));
            reqs.push(format!("wfile {} {} {}", big20_hex, 8192 + 5, m));
        }
        for k in [0usize, 1, sl - 1, sl, sl + 1, 5000, 8192, 8193, 30_000] {
            reqs.push(format!("wfile {} - pre{}", small_hex, k));
        }
        for k in [1usize, 8192, bl - 1, bl, bl + 1, 2 * bl + 7] {
            reqs.push(format!("wfile {} - pre{}", big20_hex, k));
        }
        // a limited file that existed before: what is left is the prefix written, never old bytes
        let stride_h = ctx.q(211u64, 29);
        for i in (0..=sl as u64).step_by(stride_h as usize).chain([sl as u64 - 1, sl as u64]) {
            reqs.push(format!("wfile {} {} pre{}", small_hex, i, sl + 100));
        }
        for i in (0..=bl as u64).step_by(ctx.q(2999usize, 499)).chain([8191u64, 8192, 8193, bl as u64 - 1, bl as u64]) {
            reqs.push(format!("wfile {} {} pre{}", big20_hex, i, bl + 100));
        }
        // std's DEFAULT BufReader capacity (8192) over scripted sources on a package larger than the buffer, whole and cut near the mark
        for sp in ["a:b8192", "k4096:b8192", "k8191:i2:b8192", "r5:b8192", "k20000:b8192", "1:b8192"] {
            reqs.push(format!("rd {} {}", big20_hex, sp));
            for cut in [8191usize, 8192, 8193, bl - 1] {
                reqs.push(format!("rd {} {}", hx(&big20[..cut]), sp));
            }
        }
        for (i, r) in reqs.into_iter().enumerate() {
            ctx_req_owned(ctx, i as u64, r);
        }
    }

    // D. truncation at every offset of the same package
    every(ctx, n, |ctx, i| ctx.req(&format!("tr {} {}", small_hex, i)));

    // B/C. all chunk families on generated packages
    let npk = ctx.q(200u64, 2000);
    let fixed = [2usize, 3, 7, 16, 17];
    let mut g = Rng::new(seed ^ 0xB0B);
    for i in 0..npk {
        // generate in every shard (keeps the stream aligned), emit only in the owner
        let tsize = 300 + (g.below(900) as usize);
        let mut bytes = if i % 7 == 3 { gen_package_sized(&mut g, tsize) } else { gen_package_wf(&mut g) };
        let cut = g.below(bytes.len() as u64 + 1) as usize;
        let r1 = g.below(1000);
        let r2 = g.below(1000);
        let off = g.below(bytes.len() as u64 + 8) as usize;
        let j = 2 + g.below(5);
        let cap = 1 + g.below(20);
        if i % ctx.shard.1 != ctx.shard.0 {
            continue;
        }
        let h = hx(&bytes);
        // sinks: no failure
        ctx.req(&format!("wr {} a", h));
        ctx.req(&format!("wr {} 1", h));
        ctx.req(&format!("wr {} 1:i2", h));
        for k in fixed {
            ctx.req(&format!("wr {} k{}", h, k));
        }
        ctx.req(&format!("wr {} k{}:i{}", h, fixed[(i % 5) as usize], j));
        ctx.req(&format!("wr {} r{}", h, r1));
        ctx.req(&format!("wr {} r{}:i{}", h, r2, j));
        ctx.req(&format!("wr {} a:i{}", h, j));
        // sinks: a failure somewhere (sometimes beyond the end: then it must succeed)
        ctx.req(&format!("wr {} r{}:f{}", h, r1, off));
        ctx.req(&format!("wr {} k{}:i{}:z{}", h, fixed[(i % 5) as usize], j, off));
        ctx.req(&format!("wr {} r{}:i{}:e{}", h, r2, j, off));
        ctx.req(&format!("wr {} 1:e{}", h, off / 2));
        ctx.req(&format!("wrm {} r{}:i{}", h, r2, j));
        ctx.req(&format!("wrm {} 1:f{}", h, off));
        // sources; a share of truncated inputs (chunked and plain parse must fail alike)
        if i % 5 == 4 {
            bytes.truncate(cut);
        }
        let h = hx(&bytes);
        ctx.req(&format!("rd {} 1:d", h));
        ctx.req(&format!("rd {} 1:i2:d", h));
        ctx.req(&format!("rd {} a:d", h));
        ctx.req(&format!("rd {} a:i{}:d", h, j));
        for k in fixed {
            ctx.req(&format!("rd {} k{}:d", h, k));
        }
        ctx.req(&format!("rd {} k{}:i{}:d", h, fixed[(i % 5) as usize], j));
        ctx.req(&format!("rd {} r{}:d", h, r1));
        ctx.req(&format!("rd {} r{}:i{}:d", h, r2, j));
        ctx.req(&format!("rd {} 1:b1", h));
        ctx.req(&format!("rd {} 1:i3:b{}", h, cap));
        ctx.req(&format!("rd {} a:b{}", h, cap));
        ctx.req(&format!("rd {} r{}:b{}", h, r1, cap));
        ctx.req(&format!("rd {} r{}:i{}:b{}", h, r2, j, cap));
        ctx.req(&format!("rd {} k{}:b3", h, fixed[(i % 5) as usize]));
        if i % 10 == 0 {
            // every truncation offset of some small packages as well
            for k in 0..=bytes.len() {
                ctx.req(&format!("tr {} {}", h, k));
            }
        }
    }

    // real-world packages (by file reference): chunk families, a strided failure sweep, truncation around the boundaries
    let mut assets = asset_paths();
    if let Ok(d) = std::fs::read_dir("/repo/test_assets/fixture_packages") {
        let mut v: Vec<_> = d.filter_map(|e| e.ok()).map(|e| e.path()).filter(|p| p.is_file()).collect();
        v.sort();
        assets.extend(v);
    }
    let mut item = 0u64;
    for p in assets {
        let len = std::fs::metadata(&p).map(|m| m.len()).unwrap_or(0);
        let big = len > 100_000;
        if big && !ctx.thorough {
            continue;
        }
        let a = format!("@{}", p.display());
        let po = rpm::Package::open(&p).map(|p| p.metadata.get_package_segment_offsets().payload).unwrap_or(0);
        let mut reqs: Vec<String> = Vec::new();
        for pat in ["a", "k4096", "k17:i3", "r5", "r6:i2"] {
            reqs.push(format!("wr {} {}", a, pat));
        }
        if !big {
            reqs.push(format!("wr {} 1", a));
            reqs.push(format!("wr {} 1:i2", a));
            reqs.push(format!("rd {} 1:d", a));
            reqs.push(format!("rd {} 1:i2:b1", a));
        }
        for s in ["k4096:d", "k17:i3:d", "r5:d", "r6:i2:b7", "a:b1", "a:d", "k3:b4096"] {
            reqs.push(format!("rd {} {}", a, s));
        }
        // failure offsets: every offset for the small ones in the thorough tier, strided otherwise; always the boundaries
        let stride = if ctx.thorough { if big { 257 } else { 1 } } else { 61 };
        let mut offs: Vec<u64> = (0..=len).step_by(stride).collect();
        for b in [96u64, 112, po, len] {
            for d in 0..6u64 {
                offs.push(b.saturating_sub(d).min(len));
                offs.push((b + d).min(len));
            }
        }
        offs.sort();
        offs.dedup();
        for (n, o) in offs.iter().enumerate() {
            let pat = ["r7", "k13:i3", "a", "1"][n % if big { 3 } else { 4 }];
            reqs.push(format!("wr {} {}:{}{}", a, pat, ["z", "f", "e", "f"][n % 4], o));
        }
        // truncation: every offset before the payload (stride in quick), a few after
        let tstride = if ctx.thorough { if big { 211 } else { 1 } } else { 17 };
        let mut ks: Vec<u64> = (0..po.min(len)).step_by(tstride).collect();
        for d in 0..8u64 {
            ks.push(po.saturating_sub(d).min(len));
            ks.push((po + d).min(len));
        }
        ks.push(len);
        ks.sort();
        ks.dedup();
        for k in ks {
            reqs.push(format!("tr {} {}", a, k));
        }
        for r in reqs {
            if item % ctx.shard.1 == ctx.shard.0 {
                ctx.req(&r);
            }
            item += 1;
        }
    }

    if ctx.thorough {
        // a larger generated package: every failure offset of a ~4 KiB one, a strided sweep of a ~40 KiB one
        let mid = gen_package_sized(&mut prng, 4096);
        let mid_hex = hx(&mid);
        let n = mid.len() as u64 + 1;
        for pat in [format!("r{}", rs + 1), "k16:i5".to_string()] {
            every(ctx, n, |ctx, i| ctx.req(&format!("wr {} {}:f{}", mid_hex, pat, i)));
        }
        every(ctx, n, |ctx, i| ctx.req(&format!("tr {} {}", mid_hex, i)));
        let big = gen_package_sized(&mut prng, 40 * 1024);
        let big_hex = hx(&big);
        let n = big.len() as u64 / 97 + 1;
        for pat in [format!("r{}:i4", rs + 2), "k17".to_string(), "a".to_string()] {
            every(ctx, n, |ctx, i| ctx.req(&format!("wr {} {}:f{}", big_hex, pat, (i * 97).min(big.len() as u64))));
        }
        every(ctx, 40, |ctx, i| {
            let s = ["1:d", "k7:i2:d", "r9:b5", "a:b1"][(i % 4) as usize];
            ctx.req(&format!("rd {} {}", big_hex, s));
        });
        // more seeds of the random family on the small package
        every(ctx, 400, |ctx, i| ctx.req(&format!("wr {} r{}:i{}", small_hex, 5000 + i, 2 + i % 7)));
    }
}
