//! Second, tiny harness: rpm-rs with its DEFAULT cargo features. Prints protocol lines for the ops whose
//! behaviour could depend on the feature set (C15: every compression type parses back from its own name).
use std::str::FromStr;

fn hx(b: &[u8]) -> String {
    if b.is_empty() { "-".into() } else { hex::encode(b) }
}

fn comp_obs(s: &str) -> String {
    match std::panic::catch_unwind(|| rpm::CompressionType::from_str(s)) {
        Ok(Ok(c)) => format!("ok:{}", c as usize),
        Ok(Err(_)) => "err".into(),
        Err(_) => "panic".into(),
    }
}

fn main() {
    std::panic::set_hook(Box::new(|_| {}));
    let variants = [
        rpm::CompressionType::None,
        rpm::CompressionType::Gzip,
        rpm::CompressionType::Zstd,
        rpm::CompressionType::Xz,
        rpm::CompressionType::Bzip2,
    ];
    // exhaustive match as a compile-time reminder when a variant is added
    for v in variants {
        match v {
            rpm::CompressionType::None | rpm::CompressionType::Gzip | rpm::CompressionType::Zstd
            | rpm::CompressionType::Xz | rpm::CompressionType::Bzip2 => {}
        }
    }
    let items: Vec<String> = variants
        .iter()
        .map(|c| {
            let name = c.to_string();
            format!("{}:{}:{}", *c as usize, hx(name.as_bytes()), comp_obs(&name))
        })
        .collect();
    println!("compall => {}", items.join(","));
}
